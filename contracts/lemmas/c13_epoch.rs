// ---------------------------------------------------------------------------------------------
// L C13.epoch: the 8-bit timer token tells epochs apart as long as fewer than 256 epoch changes lie between issuing a timer and
// delivering it.  Every epoch change is `timer_token.wrapping_add(1)` (O C13.bump / C11.epoch, proved on reset, become_disconnected
// and become_undead), and every tokened handler compares the timer's token with the current one for equality (O C13.stale).
// ---------------------------------------------------------------------------------------------
spec fn bump_n(t: u8, k: nat) -> u8
    decreases k
{
    if k == 0 { t } else { bump_n(t, (k - 1) as nat).wrapping_add(1) }
}

proof fn lemma_bump_n(t: u8, k: nat)
    ensures bump_n(t, k) as int == (t as int + k as int) % 256
    decreases k
{
    if k > 0 {
        lemma_bump_n(t, (k - 1) as nat);
        let p = bump_n(t, (k - 1) as nat);
        assert(p.wrapping_add(1) as int == (p as int + 1) % 256) by {
            if p as int + 1 > 255 { assert(p == 255u8); }
        }
        assert(((t as int + k as int - 1) % 256 + 1) % 256 == (t as int + k as int) % 256) by (nonlinear_arith);
    }
}

// a timer carrying the token of its epoch is stale (token mismatch) in every later epoch fewer than 256 changes away  [C13.stale]
proof fn lemma_c13_epoch(t: u8, k: nat)
    requires 1 <= k <= 255
    ensures bump_n(t, k) != t // [C13.stale]
{
    lemma_bump_n(t, k);
    assert((t as int + k as int) % 256 != t as int) by (nonlinear_arith)
        requires 1 <= k <= 255, 0 <= t as int <= 255;
}
