// ---- trusted prelude: stand-ins for the parts of `rand` that foca calls ----
// A-rng: no assumption on values beyond the range contract => every seed.
trait Rng: Sized {
    // rand::Rng::random_range panics on an empty range: precondition is a C06 obligation
    fn random_range(&mut self, range: core::ops::Range<usize>) -> (r: usize)
        requires range.start < range.end,
        ensures range.start <= r < range.end;
}

impl<R: Rng> Rng for &mut R {
    #[verifier::external_body]
    fn random_range(&mut self, range: core::ops::Range<usize>) -> (r: usize) {
        unimplemented!()
    }
}

trait SliceRandom {
    type Item;
    spec fn elems(&self) -> Seq<Self::Item>;
    // rand::seq::SliceRandom::shuffle: some permutation, any permutation
    fn shuffle<R: Rng>(&mut self, rng: &mut R)
        ensures final(self).elems().to_multiset() == old(self).elems().to_multiset(),
                final(self).elems().len() == old(self).elems().len();
}

impl<T> SliceRandom for Vec<T> {
    type Item = T;
    spec fn elems(&self) -> Seq<T> { self@ }
    #[verifier::external_body]
    fn shuffle<R: Rng>(&mut self, rng: &mut R) { unimplemented!() }
}

trait IteratorRandom: Sized {
    spec fn lo(&self) -> int;
    spec fn hi(&self) -> int;
    // rand::seq::IteratorRandom::choose on a usize range
    fn choose<R: Rng>(self, rng: &mut R) -> (r: Option<usize>)
        ensures self.lo() < self.hi() ==> r.is_some() && self.lo() <= r.unwrap() < self.hi(),
                self.lo() >= self.hi() ==> r.is_none();
}

impl IteratorRandom for core::ops::Range<usize> {
    spec fn lo(&self) -> int { self.start as int }
    spec fn hi(&self) -> int { self.end as int }
    #[verifier::external_body]
    fn choose<R: Rng>(self, rng: &mut R) -> (r: Option<usize>) { unimplemented!() }
}
