"""Minimal Rust lexical scanner: enough to match braces/parens while skipping
strings, chars, lifetimes, comments and raw strings.  Used by extract.py to cut
items out of /repo/src token-for-token."""


def scan(src, start=0, end=None):
    """Yield (idx, kind, text) for code-significant single characters and for
    skipped regions.  kind in {'code', 'comment', 'string'}; for 'code' text is
    one char."""
    i = start
    n = len(src) if end is None else end
    while i < n:
        c = src[i]
        if c == '/' and i + 1 < n and src[i + 1] == '/':
            j = src.find('\n', i)
            j = n if j < 0 or j > n else j
            yield (i, 'comment', src[i:j])
            i = j
        elif c == '/' and i + 1 < n and src[i + 1] == '*':
            depth, j = 1, i + 2
            while j < n and depth:
                if src.startswith('/*', j):
                    depth += 1
                    j += 2
                elif src.startswith('*/', j):
                    depth -= 1
                    j += 2
                else:
                    j += 1
            yield (i, 'comment', src[i:j])
            i = j
        elif c == '"':
            j = i + 1
            while j < n and src[j] != '"':
                j += 2 if src[j] == '\\' else 1
            yield (i, 'string', src[i:j + 1])
            i = j + 1
        elif c == 'r' and i + 1 < n and src[i + 1] in '#"' and (i == 0 or not (src[i - 1].isalnum() or src[i - 1] == '_')):
            j = i + 1
            h = 0
            while j < n and src[j] == '#':
                h += 1
                j += 1
            if j < n and src[j] == '"':
                close = '"' + '#' * h
                k = src.find(close, j + 1)
                k = n if k < 0 else k + len(close)
                yield (i, 'string', src[i:k])
                i = k
            else:
                yield (i, 'code', c)
                i += 1
        elif c == 'b' and i + 1 < n and src[i + 1] == '"' and (i == 0 or not (src[i - 1].isalnum() or src[i - 1] == '_')):
            yield (i, 'code', c)
            i += 1
        elif c == "'":
            # char literal or lifetime
            if i + 2 < n and src[i + 1] == '\\':
                j = src.find("'", i + 2)
                # handle '\'' : the quote right after backslash is escaped
                if j == i + 2:
                    j = src.find("'", i + 3)
                yield (i, 'string', src[i:j + 1])
                i = j + 1
            elif i + 2 < n and src[i + 2] == "'":
                yield (i, 'string', src[i:i + 3])
                i += 3
            else:
                yield (i, 'code', c)  # lifetime tick
                i += 1
        else:
            yield (i, 'code', c)
            i += 1


def match_close(src, open_idx):
    """Index of the bracket closing the one at open_idx ('{', '(', '[')."""
    pairs = {'{': '}', '(': ')', '[': ']'}
    o = src[open_idx]
    cl = pairs[o]
    depth = 0
    for i, kind, t in scan(src, open_idx):
        if kind != 'code':
            continue
        if t == o:
            depth += 1
        elif t == cl:
            depth -= 1
            if depth == 0:
                return i
    raise ValueError('unbalanced %s at %d' % (o, open_idx))


def code_mask(src):
    """Return a list of booleans: True where the char is code (not comment/string)."""
    m = [False] * len(src)
    for i, kind, t in scan(src):
        if kind == 'code':
            m[i] = True
    return m


def strip_comments(src):
    out = []
    for i, kind, t in scan(src):
        if kind == 'comment':
            # keep newlines so that line structure is preserved
            out.append('\n' * t.count('\n') if t.startswith('/*') else '')
        else:
            out.append(t)
    return ''.join(out)
