    // F5 (C06, also C07/C16): with max_packet_size above 65535 add_broadcast accepts an item that the
    // 16-bit length prefix cannot carry; the next datagram panics in debug builds
    // (debug_assert!(u16::try_from(len).is_ok())) and carries a truncated length in release builds.
    #[test]
    fn verif_f5_oversized_custom_broadcast_is_rejected_or_harmless() {
        struct Accept;
        struct Key;
        impl Invalidates for Key {
            fn invalidates(&self, _other: &Self) -> bool {
                false
            }
        }
        impl BroadcastHandler<ID> for Accept {
            type Key = Key;
            type Error = crate::testing::BadCodecError;
            fn receive_item(
                &mut self,
                _data: &[u8],
                _sender: Option<&ID>,
            ) -> core::result::Result<Option<Self::Key>, Self::Error> {
                Ok(Some(Key))
            }
        }
        let mut c = config();
        c.max_packet_size = NonZeroUsize::new(100_000).unwrap();
        let mut foca = Foca::with_custom_broadcast(ID::new(1), c, rng(), codec(), Accept);
        let mut runtime = AccumulatingRuntime::new();
        assert_eq!(Ok(()), foca.apply(Member::alive(ID::new(2)), &mut runtime));
        let big = vec![7u8; 70_000];
        // either refused ...
        if foca.add_broadcast(&big).is_ok() {
            // ... or sending must neither panic nor emit a datagram with a bogus length prefix
            runtime.clear();
            assert_eq!(Ok(()), foca.gossip(&mut runtime));
            for (_dst, data) in runtime.take_all_data() {
                let mut buf = &data[..];
                let _ = codec().decode_header(&mut buf).unwrap();
                let n = buf.get_u16();
                assert_eq!(0, n);
                while buf.has_remaining() {
                    let len = buf.get_u16() as usize;
                    assert_eq!(70_000, len, "length prefix truncated");
                    buf.advance(len);
                }
            }
        }
    }
