#!/usr/bin/env python3
"""Writes frag/broadcast_fill.in: the contract blocks of Broadcasts::fill and ::fill_with_len_prefix are the same text
up to the framing flag, so they are produced from one template (contracts only; bodies always come from /repo)."""
import os
T = '''
//@fn broadcast.rs Broadcasts::FNAME
//@ret r
//@attr #[verifier::exec_allows_no_decreases_clause]
//@sig "mut buffer: impl BufMut" => "buffer: &mut impl BufMut"
//@sub "let mut remaining = max_items;" => "let mut remaining = max_items; let ghost mut popped: Seq<Entry<T>> = Seq::empty(); let ghost mut took: Seq<bool> = Seq::empty(); let ghost w0 = buffer.written(); let ghost rem0 = buffer.rem() as int; let ghost cap_0 = buffer.cap();"
//@before "return 0;"
            proof {
                assert(self.bag() =~= Multiset::<Entry<T>>::empty());
                assert(fill_effect(old(self).bag(), self.bag(), buffer.written(), buffer.written(), buffer.rem() as int, buffer.rem() as int,
                    max_items as int, 0, PREFIX, Seq::<Entry<T>>::empty(), Seq::<bool>::empty(), self.bag())); // [C15.fill]
            }
//@before "debug_assert_(node.remaining_tx > 0);"
            let ghost node0 = node;
            let ghost took_it = FITS;
            proof {
                lemma_fill_step(popped, took, node0, took_it, PREFIX);
                assert(old(self).bag().count(node0) > 0);
                assert(node0.remaining_tx > 0);
                assert forall|y: Entry<T>| heap_view(&self.flip).count(y) > 0 implies entry_cmp(y, node0) != Ordering::Greater by {
                    assert(OrdSpec::cmp_spec(&y, &node0) == entry_cmp(y, node0));
                }
                assert forall|i: int| 0 <= i < popped.len() implies entry_cmp(node0, #[trigger] popped[i]) != Ordering::Greater by { }
                assert(undec(dec(node0)) == node0);
            }
//@before "if node.remaining_tx > 0 {"
            proof {
                popped = popped.push(node0);
                took = took.push(took_it);
            }
//@loop 1
            invariant
                old(self).wf(),PREBOUND
                buffer.cap() == cap_0,
                popped.len() == took.len(),
                heap_view(&old(self).flip) == heap_view(&self.flip).add(seq_bag(popped)), // [C15.fill]
                heap_view(&self.flop) == requeue(popped, took), // [C15.fill]
                buffer.written() == w0 + cat(popped, took, PREFIX), // [C07.fill] [C16.prefix]
                buffer.rem() == rem0 - cat(popped, took, PREFIX).len(), // [C07.fill]
                num_taken == ntaken(took), remaining == max_items - num_taken, num_taken <= max_items, // [C15.fill]
                forall|i: int| 0 <= i < popped.len() && !took[i] ==> item_bytes(#[trigger] popped[i], PREFIX).len() > buffer.rem(), // [C15.fill] no omission
                forall|i: int, j: int| 0 <= i < j < popped.len() ==> entry_cmp(#[trigger] popped[j], #[trigger] popped[i]) != Ordering::Greater, // [C15.fill] precedence
                forall|y: Entry<T>, i: int| heap_view(&self.flip).count(y) > 0 && 0 <= i < popped.len() ==> #[trigger] entry_cmp(y, popped[i]) != Ordering::Greater, // [C15.fill] precedence
                forall|e: Entry<T>| requeue(popped, took).count(e) > 0 ==> e.remaining_tx > 0, // [C15.fill] nothing is requeued with zero transmissions left
                forall|e: Entry<T>| #[trigger] requeue(popped, took).count(e) > 0 ==> old(self).bag().count(e) > 0 || old(self).bag().count(undec(e)) > 0,
            ensures
                heap_view(&self.flip).len() == 0 || buffer.rem() == 0 || remaining == 0, // [C15.fill] no omission
//@before "self.flip.append(&mut self.flop);"
        let ghost flip_exit = heap_view(&self.flip);
//@before "num_taken" #2
        proof {
            assert forall|e: Entry<T>| self.bag().count(e) > 0 implies e.remaining_tx > 0 by {
                assert(self.bag().count(e) == flip_exit.count(e) + requeue(popped, took).count(e));
                if requeue(popped, took).count(e) == 0 {
                    assert(old(self).bag().count(e) >= flip_exit.count(e));
                    assert(old(self).bag().count(e) > 0);
                }
            }
            assert forall|p: spec_fn(Seq<u8>) -> bool| old(self).data_all(p) implies self.data_all(p) by {
                assert forall|e: Entry<T>| self.bag().count(e) > 0 implies p(e.data@) by {
                    assert(self.bag().count(e) == flip_exit.count(e) + requeue(popped, took).count(e));
                    if requeue(popped, took).count(e) == 0 { assert(old(self).bag().count(e) >= flip_exit.count(e)); }
                    else if old(self).bag().count(e) == 0 { assert(old(self).bag().count(undec(e)) > 0); assert(undec(e).data == e.data); }
                }
            }
            assert forall|lo: int, hi: int| old(self).data_bounded(lo, hi) implies self.data_bounded(lo, hi) by {
                assert forall|e: Entry<T>| self.bag().count(e) > 0 implies lo <= e.data@.len() <= hi by {
                    assert(self.bag().count(e) == flip_exit.count(e) + requeue(popped, took).count(e));
                    if requeue(popped, took).count(e) == 0 { assert(old(self).bag().count(e) >= flip_exit.count(e)); }
                    else if old(self).bag().count(e) == 0 { assert(old(self).bag().count(undec(e)) > 0); assert(undec(e).data == e.data); }
                }
            }
            assert(fill_effect(old(self).bag(), self.bag(), w0, buffer.written(), rem0, buffer.rem() as int, max_items as int, num_taken as int, PREFIX, popped, took, heap_view(&self.flip).sub(requeue(popped, took)))); // [C15.fill] [C07.fill]
        }
//@spec
        requires
            old(self).wf(), // [C15.fill]PREBOUNDOLD
        ensures
            final(self).wf(), // [C15.fill] [C06.dbg] the scratch heap is handed back empty (the next fill's debug assertion)
            (*final(buffer)).cap() == (*old(buffer)).cap(),
            forall|lo: int, hi: int| old(self).data_bounded(lo, hi) ==> final(self).data_bounded(lo, hi),
            forall|p: spec_fn(Seq<u8>) -> bool| old(self).data_all(p) ==> final(self).data_all(p), // [C07.roundtrip] no new bytes enter a backlog by sending
            exists|popped: Seq<Entry<T>>, took: Seq<bool>, rest: Multiset<Entry<T>>| #![auto]
                fill_effect(old(self).bag(), final(self).bag(), (*old(buffer)).written(), (*final(buffer)).written(),
                            (*old(buffer)).rem() as int, (*final(buffer)).rem() as int, max_items as int, r as int, PREFIX, popped, took, rest), // [C15.fill] [C07.fill] [C16.prefix]
//@end
'''
out = T.replace('FNAME', 'fill').replace('PREFIX', 'false').replace('FITS', 'buffer.rem() >= node0.data@.len()').replace('PREBOUNDOLD', '').replace('PREBOUND', '')
out += T.replace('FNAME', 'fill_with_len_prefix').replace('PREFIX', 'true').replace('FITS', 'buffer.rem() >= node0.data@.len() + 2') \
        .replace('PREBOUNDOLD', '\n            old(self).data_bounded(0, 65535), // [C06.dbg] [C16.prefix]').replace('PREBOUND', ' old(self).data_bounded(0, 65535),')
open(os.path.join(os.path.dirname(os.path.abspath(__file__)), 'frag', 'broadcast_fill.in'), 'w').write(out)
