    // F6 (C06, also C07): the member count of a Feed is a u16 that is incremented once per member written;
    // with a large packet size, a compact codec and more than 65535 active members `num_items += 1`
    // overflows (panic in debug builds, a wrapped - i.e. wrong - count in release builds).
    #[test]
    fn verif_f6_feed_count_never_overflows() {
        #[derive(Clone, Copy, Debug, PartialEq, Eq)]
        struct Id32(u32);
        impl Identity for Id32 {
            type Addr = u32;
            fn renew(&self) -> Option<Self> {
                None
            }
            fn addr(&self) -> u32 {
                self.0
            }
            fn win_addr_conflict(&self, _adversary: &Self) -> bool {
                false
            }
        }
        struct Tiny;
        #[derive(Debug)]
        struct TinyErr;
        impl fmt::Display for TinyErr {
            fn fmt(&self, f: &mut fmt::Formatter<'_>) -> fmt::Result {
                f.write_str("tiny")
            }
        }
        impl core::error::Error for TinyErr {}
        fn put_msg(m: &Message<Id32>, mut buf: impl BufMut) {
            match m {
                Message::Announce => buf.put_u8(0),
                Message::Feed => buf.put_u8(1),
                _ => buf.put_u8(2),
            }
        }
        impl Codec<Id32> for Tiny {
            type Error = TinyErr;
            fn encode_header(&mut self, h: &Header<Id32>, mut buf: impl BufMut) -> core::result::Result<(), TinyErr> {
                if buf.remaining_mut() < 11 {
                    return Err(TinyErr);
                }
                buf.put_u32(h.src.0);
                buf.put_u16(h.src_incarnation);
                buf.put_u32(h.dst.0);
                put_msg(&h.message, &mut buf);
                Ok(())
            }
            fn decode_header(&mut self, mut buf: impl Buf) -> core::result::Result<Header<Id32>, TinyErr> {
                if buf.remaining() < 11 {
                    return Err(TinyErr);
                }
                let src = Id32(buf.get_u32());
                let src_incarnation = buf.get_u16();
                let dst = Id32(buf.get_u32());
                let message = match buf.get_u8() {
                    0 => Message::Announce,
                    1 => Message::Feed,
                    _ => Message::Gossip,
                };
                Ok(Header { src, src_incarnation, dst, message })
            }
            fn encode_member(&mut self, m: &Member<Id32>, mut buf: impl BufMut) -> core::result::Result<(), TinyErr> {
                if buf.remaining_mut() < 4 {
                    return Err(TinyErr);
                }
                buf.put_u32(m.id().0);
                Ok(())
            }
            fn decode_member(&mut self, mut buf: impl Buf) -> core::result::Result<Member<Id32>, TinyErr> {
                if buf.remaining() < 4 {
                    return Err(TinyErr);
                }
                Ok(Member::alive(Id32(buf.get_u32())))
            }
        }
        let n: u32 = 66_000;
        let mut c = config();
        c.max_packet_size = NonZeroUsize::new(400_000).unwrap();
        let mut foca = Foca::new(Id32(0), c, rng(), Tiny);
        let mut runtime = AccumulatingRuntime::new();
        assert_eq!(
            Ok(()),
            foca.apply_many((1..=n).map(|i| Member::alive(Id32(i))), false, &mut runtime)
        );
        assert_eq!(n as usize, foca.num_members());
        runtime.clear();
        // somebody announces: the reply is a Feed with as many members as fit
        let mut announce = Vec::new();
        Tiny.encode_header(
            &Header { src: Id32(n + 1), src_incarnation: 0, dst: Id32(0), message: Message::Announce },
            &mut announce,
        )
        .unwrap();
        assert_eq!(Ok(()), foca.handle_data(&announce, &mut runtime));
        let feed = runtime.take_data(Id32(n + 1)).expect("feed reply");
        let mut buf = &feed[..];
        let _ = Tiny.decode_header(&mut buf).unwrap();
        let count = buf.get_u16() as usize;
        assert_eq!(count * 4, buf.remaining(), "member count does not match the members present");
    }
