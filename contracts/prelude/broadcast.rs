// ---- trusted prelude: user-supplied Invalidates / BroadcastHandler (src/broadcast.rs) with ghost members ----
trait Invalidates: Sized {
    spec fn inv_spec(&self, other: &Self) -> bool;

    fn invalidates(&self, other: &Self) -> (r: bool)
        ensures r == self.inv_spec(other);
}
