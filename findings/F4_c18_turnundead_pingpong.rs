    // F4 (C18): two non-renewable members that consider each other Down bounce
    // TurnUndead back and forth forever.
    #[test]
    fn verif_f4_turnundead_does_not_bounce() {
        let config = {
            let mut c = config();
            c.notify_down_members = true;
            c
        };
        let mut one = Foca::new(ID::new(1), config.clone(), rng(), codec());
        let mut two = Foca::new(ID::new(2), config, rng(), codec());
        let mut rt = AccumulatingRuntime::new();
        assert_eq!(Ok(()), one.apply(Member::down(ID::new(2)), &mut rt));
        assert_eq!(Ok(()), two.apply(Member::down(ID::new(1)), &mut rt));
        rt.clear();
        // a single datagram from two to one
        let mut inflight = vec![(
            ID::new(1),
            encode((
                Header {
                    src: ID::new(2),
                    src_incarnation: 0,
                    dst: ID::new(1),
                    message: Message::Gossip,
                },
                Vec::default(),
            )),
        )];
        let mut delivered = 0;
        while let Some((dst, data)) = inflight.pop() {
            delivered += 1;
            assert!(delivered < 20, "TurnUndead storm: {delivered} datagrams and counting");
            let target = if dst.addr() == 1 { &mut one } else { &mut two };
            let _ = target.handle_data(&data, &mut rt);
            for (to, data) in rt.take_all_data() {
                inflight.push((to, data));
            }
            rt.clear();
        }
    }
