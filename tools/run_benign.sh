#!/bin/bash
# usage: run_benign.sh [k ...]: every check against a scratch copy with the behaviour-preserving refactoring benign/<k>/patch.diff applied.
# Expected: exit 0 (or 2 = undecided); exit 1 would be a false alarm.
cd /verif
ks=("$@"); [ ${#ks[@]} -eq 0 ] && ks=($(ls benign))
props="C01 C06 C07 C08 C09 C10 C11 C12 C13 C14 C15 C16 C17 C18 C19"
one() {
  k=$1; prop=$2
  d=$(mktemp -d /tmp/verif_benign.XXXXXX)
  rsync -a --exclude target --exclude .git /repo/ "$d"/
  (cd "$d" && patch -p1 -s < /verif/benign/$k/patch.diff >/dev/null 2>&1) || { echo "benign-$k $prop PATCH-FAILED"; rm -rf "$d"; return; }
  out=$(REPO="$d" ./check $prop 2>&1); rc=$?
  rm -rf "$d"
  echo "benign-$k $prop rc=$rc $(echo "$out" | grep -m1 'VIOLATION\|UNDECIDED\|^OK' | cut -c1-200)"
}
export -f one
for k in "${ks[@]}"; do for p in $props; do echo "$k $p"; done; done | xargs -P 5 -L 1 bash -c 'one $0 $1'
