// ---- trusted prelude: user-supplied Invalidates / BroadcastHandler (src/broadcast.rs) with ghost members ----
trait Invalidates: Sized {
    spec fn inv_spec(&self, other: &Self) -> bool;

    // the condition under which `invalidates` is the pure function `inv_spec` (for foca's own key: lawful `==` on addresses)
    spec fn inv_lawful() -> bool;

    fn invalidates(&self, other: &Self) -> (r: bool)
        ensures Self::inv_lawful() ==> r == self.inv_spec(other);
}
