#!/bin/bash
# quick dev loop: extract + verus + print rendered diagnostics
u=$1; shift
cd /verif && python3 tools/extract.py contracts/$u.rs.in gen/$u.rs || exit 2
verus gen/$u.rs --output-json --error-format=json --multiple-errors 10 --time "$@" > gen/$u.out.json 2> gen/$u.err; rc=$?
python3 - "$u" <<'PY'
import json,sys
u=sys.argv[1]
for l in open('/verif/gen/%s.err'%u):
    try: d=json.loads(l)
    except Exception: print(l.rstrip()); continue
    if d.get('rendered'): print(d['rendered'])
try:
    d=json.load(open('/verif/gen/%s.out.json'%u))
    print(d['verification-results'])
    for m in d['times-ms']['smt']['smt-run-module-times']:
        for f in sorted(m.get('function-breakdown',[]), key=lambda f:-f['time'])[:8]:
            print('  %6d ms %s %s'%(f['time'], f['function'], '' if f['success'] else 'FAIL'))
    print('total ms', d['times-ms']['total'])
except Exception as e: print('no json', e)
PY
exit $rc
