// ---- trusted prelude: stand-ins for bytes::{Bytes, BytesMut} as used by AccumulatingRuntime::send_to ----
#[verifier::external_body]
struct Bytes { _p: () }
#[verifier::external_body]
struct BytesMut { _p: () }

impl Bytes {
    uninterp spec fn view(&self) -> Seq<u8>;
}

impl BytesMut {
    uninterp spec fn view(&self) -> Seq<u8>;

    #[verifier::external_body]
    fn extend_from_slice(&mut self, extend: &[u8])
        ensures final(self)@ == old(self)@ + extend@
    { unimplemented!() }

    // split(): hands out everything written so far and leaves the buffer empty
    #[verifier::external_body]
    fn split(&mut self) -> (r: BytesMut)
        ensures r@ == old(self)@, final(self)@ == Seq::<u8>::empty()
    { unimplemented!() }

    #[verifier::external_body]
    fn freeze(self) -> (r: Bytes)
        ensures r@ == self@
    { unimplemented!() }
}
