// ---- trusted prelude: stand-ins for the parts of `bytes` that foca calls (A-prelude) ----
spec fn be16(n: u16) -> Seq<u8> { seq![(n / 256) as u8, (n % 256) as u8] }
spec fn be16_val(hi: u8, lo: u8) -> u16 { (hi as u16 * 256 + lo as u16) as u16 }

// bytes::BufMut: `written()` is everything put so far, `rem()` is remaining_mut().
// put_* panic in `bytes` when there is not enough room: preconditions here, i.e. C06 obligations on foca.
trait BufMut: Sized {
    spec fn written(&self) -> Seq<u8>;
    spec fn rem(&self) -> usize;
    // ghost: the capacity the underlying storage had when the buffer was set up (only meaningful for Limit)
    spec fn cap(&self) -> usize;

    fn remaining_mut(&self) -> (r: usize)
        ensures r == self.rem();

    fn has_remaining_mut(&self) -> (r: bool)
        ensures r == (self.rem() > 0);

    fn put_slice(&mut self, src: &[u8])
        requires src@.len() <= (*old(self)).rem(),
        ensures (*final(self)).written() == (*old(self)).written() + src@,
                (*final(self)).rem() == (*old(self)).rem() - src@.len(),
                (*final(self)).cap() == (*old(self)).cap();

    fn put_u16(&mut self, n: u16)
        requires 2 <= (*old(self)).rem(),
        ensures (*final(self)).written() == (*old(self)).written() + be16(n),
                (*final(self)).rem() == (*old(self)).rem() - 2,
                (*final(self)).cap() == (*old(self)).cap();

    fn put_u8(&mut self, n: u8)
        requires 1 <= (*old(self)).rem(),
        ensures (*final(self)).written() == (*old(self)).written().push(n),
                (*final(self)).rem() == (*old(self)).rem() - 1,
                (*final(self)).cap() == (*old(self)).cap();
}

// bytes::buf::Limit<Vec<u8>> as produced by `Vec<u8>::limit(n)` (BufMut::limit)
struct Limit {
    inner: Vec<u8>,
    limit: usize,
    // capacity of `inner` when `limit()` was called; stays the real capacity as long as len + limit never exceeded it
    cap0: Ghost<usize>,
}

impl BufMut for Limit {
    spec fn written(&self) -> Seq<u8> { self.inner@ }
    spec fn rem(&self) -> usize { self.limit }
    spec fn cap(&self) -> usize { self.cap0@ }
    #[verifier::external_body]
    fn remaining_mut(&self) -> (r: usize) { unimplemented!() }
    #[verifier::external_body]
    fn has_remaining_mut(&self) -> (r: bool) { unimplemented!() }
    #[verifier::external_body]
    fn put_slice(&mut self, src: &[u8]) { unimplemented!() }
    #[verifier::external_body]
    fn put_u16(&mut self, n: u16) { unimplemented!() }
    #[verifier::external_body]
    fn put_u8(&mut self, n: u8) { unimplemented!() }
}

// bytes: `impl BufMut for Vec<u8>` (grows on demand; remaining_mut = isize::MAX - len)
impl BufMut for Vec<u8> {
    spec fn written(&self) -> Seq<u8> { self@ }
    spec fn rem(&self) -> usize { (isize::MAX as usize - self@.len()) as usize }
    spec fn cap(&self) -> usize { 0 }
    #[verifier::external_body]
    fn remaining_mut(&self) -> (r: usize) { unimplemented!() }
    #[verifier::external_body]
    fn has_remaining_mut(&self) -> (r: bool) { unimplemented!() }
    #[verifier::external_body]
    fn put_slice(&mut self, src: &[u8]) { unimplemented!() }
    #[verifier::external_body]
    fn put_u16(&mut self, n: u16) { unimplemented!() }
    #[verifier::external_body]
    fn put_u8(&mut self, n: u8) { unimplemented!() }
}

impl Limit {
    // no write ever went past the capacity the vector had at the start => it never reallocated
    spec fn within_cap(&self) -> bool { self.inner@.len() + self.limit <= self.cap0@ }

    #[verifier::external_body]
    fn get_ref(&self) -> (r: &Vec<u8>)
        ensures *r == self.inner, self.within_cap() ==> vec_cap(r) == self.cap0@
    { unimplemented!() }

    #[verifier::external_body]
    fn into_inner(self) -> (r: Vec<u8>)
        ensures r == self.inner, self.within_cap() ==> vec_cap(&r) == self.cap0@
    { unimplemented!() }

    // bytes::buf::Limit::get_mut: the underlying vector, by mutable reference; writes through it bypass the limit (not used by the
    // unchanged source outside the hoisted H2/H3 expressions; declared so that a changed body calling it stays within reach)
    #[verifier::external_body]
    fn get_mut(&mut self) -> (r: &mut Vec<u8>)
        ensures *r == old(self).inner, final(self).inner == *final(r), final(self).limit == old(self).limit, final(self).cap0 == old(self).cap0
    { unimplemented!() }

    // bytes::buf::Limit::{limit, set_limit}: read / overwrite the number of bytes that may still be written
    #[verifier::external_body]
    fn limit(&self) -> (r: usize)
        ensures r == self.limit
    { unimplemented!() }

    #[verifier::external_body]
    fn set_limit(&mut self, lim: usize)
        ensures final(self).limit == lim, final(self).inner == old(self).inner, final(self).cap0 == old(self).cap0
    { unimplemented!() }
}

trait VecLimit {
    fn limit(self, limit: usize) -> (r: Limit);
}
impl VecLimit for Vec<u8> {
    // `limit` caps the number of *additional* bytes; Vec<u8>::remaining_mut is isize::MAX - len, far above any limit used
    #[verifier::external_body]
    fn limit(self, limit: usize) -> (r: Limit)
        ensures r.inner == self, r.limit == limit, r.cap0@ == vec_cap(&self)
    { unimplemented!() }
}

// bytes::Buf for `&[u8]`: reading advances the slice itself
trait Buf: Sized {
    spec fn bytes(&self) -> Seq<u8>;

    fn remaining(&self) -> (r: usize)
        ensures r == self.bytes().len();

    fn has_remaining(&self) -> (r: bool)
        ensures r == (self.bytes().len() > 0);

    fn get_u16(&mut self) -> (r: u16)
        requires 2 <= (*old(self)).bytes().len(),
        ensures r == be16_val((*old(self)).bytes()[0], (*old(self)).bytes()[1]),
                (*final(self)).bytes() == (*old(self)).bytes().skip(2);

    fn advance(&mut self, cnt: usize)
        requires cnt <= (*old(self)).bytes().len(),
        ensures (*final(self)).bytes() == (*old(self)).bytes().skip(cnt as int);
}

impl Buf for &[u8] {
    spec fn bytes(&self) -> Seq<u8> { (*self)@ }
    #[verifier::external_body]
    fn remaining(&self) -> (r: usize) { unimplemented!() }
    #[verifier::external_body]
    fn has_remaining(&self) -> (r: bool) { unimplemented!() }
    #[verifier::external_body]
    fn get_u16(&mut self) -> (r: u16) { unimplemented!() }
    #[verifier::external_body]
    fn advance(&mut self, cnt: usize) { unimplemented!() }
}

// H2 (rule N8): `buf.get_mut()[pos..].as_mut().put_u16(n)` overwrites the two bytes at `pos` (AsMut<[u8]> + range IndexMut
// are outside Verus' reach); everything else, including the limit, is untouched.  bytes panics if fewer than 2 bytes follow `pos`.
#[verifier::external_body]
fn h2_put_u16_at(buf: &mut Limit, pos: usize, n: u16)
    requires pos + 2 <= old(buf).inner@.len(),
    ensures final(buf).inner@ == old(buf).inner@.update(pos as int, be16(n)[0]).update(pos as int + 1, be16(n)[1]),
            final(buf).limit == old(buf).limit, final(buf).cap0 == old(buf).cap0,
{
    unimplemented!()
}

// H3 (rule N8): `buf.get_mut().truncate(pos)`: drops what a failed encode_member left behind; the limit is NOT given back
// (bytes::Limit only ever decrements it) and the capacity is untouched.
#[verifier::external_body]
fn h3_truncate(buf: &mut Limit, pos: usize)
    requires pos <= old(buf).inner@.len(),
    ensures final(buf).inner@ == old(buf).inner@.take(pos as int), final(buf).limit == old(buf).limit, final(buf).cap0 == old(buf).cap0,
{
    unimplemented!()
}

// H8/H9 (rule N8): Vec::with_capacity(n) / Vec::clear() with their capacity behaviour (vstd specifies only the contents).
// `with_capacity(n).capacity() == n` holds for u8 vectors in the std implementation; foca's own debug assertion relies on it.
#[verifier::external_body]
fn h8_with_capacity(n: usize) -> (r: Vec<u8>)
    ensures r@.len() == 0, vec_cap(&r) == n,
{
    unimplemented!()
}

#[verifier::external_body]
fn h9_clear(v: &mut Vec<u8>)
    ensures final(v)@.len() == 0, vec_cap(final(v)) == vec_cap(old(v)),
{
    unimplemented!()
}
