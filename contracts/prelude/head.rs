// ---- trusted prelude: head (hand-written, not derived from foca) ----
#![feature(allocator_api)]
#![allow(unused_imports, dead_code, unused_variables, unused_mut, unused_parens, unused_braces, unused_assignments)]
extern crate alloc;
use vstd::prelude::*;
use vstd::multiset::Multiset;
use vstd::std_specs::iter::IteratorSpec;
use vstd::std_specs::cmp::{PartialEqSpec, PartialEqSpecImpl, PartialOrdSpec, PartialOrdSpecImpl, OrdSpec, OrdSpecImpl};
use core::alloc::Allocator;
use core::cmp::Ordering;
use core::mem;
use core::time::Duration;
use core::num::{NonZeroU8, NonZeroUsize};
use alloc::vec::Vec;
