#!/bin/bash
# usage: replay_test.sh <file-with-#[test]-fns> [test-name-filter]
# Injects the given test functions at the end of `mod tests` of src/lib.rs in a
# scratch copy of /repo's working tree and runs them against the real code.
set -u
SRC=${REPO:-/repo}
f=$(readlink -f "$1"); filt=${2:-verif_}
d=$(mktemp -d /tmp/verif_replay.XXXXXX)
trap 'rm -rf "$d"' EXIT
rsync -a --exclude target --exclude .git "$SRC"/ "$d"/
python3 - "$d/src/lib.rs" "$f" <<'PY'
import sys
p, t = sys.argv[1], sys.argv[2]
s = open(p).read()
i = s.rstrip().rfind('}')
s = s[:i] + "\n" + open(t).read() + "\n}\n"
open(p, 'w').write(s)
PY
cd "$d" && CARGO_TARGET_DIR="$d/target" CARGO_NET_OFFLINE=true cargo test --offline --lib "$filt" 2>&1 | tail -40
exit ${PIPESTATUS[0]}
