"""Runner for ./check: extraction, Verus, obligation mapping, verdicts, evidence."""
import concurrent.futures
import glob
import hashlib
import json
import os
import re
import subprocess
import sys
import time

HERE = os.path.dirname(os.path.abspath(__file__))
VERIF = os.path.dirname(HERE)
sys.path.insert(0, HERE)
import extract  # noqa: E402

GEN = os.path.join(VERIF, 'gen', 'run-%d' % os.getpid())  # per-process scratch: concurrent checks never share generated files
VERUS = os.environ.get('VERUS', 'verus')
SEMANTIC = [
    ('postcondition', re.compile(r'postcondition not satisfied')),
    ('precondition', re.compile(r'precondition not satisfied')),
    ('invariant', re.compile(r'invariant not satisfied')),
    ('loop-ensures', re.compile(r'loop ensures not satisfied')),
    ('assertion', re.compile(r'assertion failed|assertion not satisfied')),
    ('overflow', re.compile(r'possible arithmetic underflow/overflow')),
    ('divzero', re.compile(r'possible division by zero')),
    ('closure-post', re.compile(r'unable to prove post-condition of closure')),
    ('closure-pre', re.compile(r'unable to prove pre-condition of closure|closure.*precondition')),
    ('decreases', re.compile(r'decreases not satisfied|could not prove termination')),
    ('unreachable', re.compile(r'unreachable|unable to prove assertion safety')),
    ('bitshift', re.compile(r'possible bit shift underflow/overflow')),
]
RLIMIT = re.compile(r'[Rr]esource limit|rlimit|timed out|Verus Internal|z3 error', re.I)


def all_units():
    return sorted(os.path.basename(p)[:-len('.rs.in')] for p in glob.glob(os.path.join(VERIF, 'contracts', '*.rs.in')))


def props_of(labels):
    return sorted(set(l.split('.')[0] for l in labels))


def generate(unit, opts=None):
    os.makedirs(GEN, exist_ok=True)
    out = os.path.join(GEN, unit + '.rs')
    return extract.generate(os.path.join(VERIF, 'contracts', unit + '.rs.in'), out, opts), out


def run_verus(path, rlimit=None, seed=None, timeout=1500, threads=None):
    cmd = [VERUS, path, '--output-json', '--time', '--error-format=json', '--multiple-errors', '20']
    if rlimit:
        cmd += ['--rlimit', str(rlimit)]
    if seed is not None:
        cmd += ['--smt-option', 'smt.random_seed=%d' % (seed % 100000)]
    if threads:
        cmd += ['--num-threads', str(threads)]
    t0 = time.time()
    try:
        p = subprocess.run(cmd, stdout=subprocess.PIPE, stderr=subprocess.PIPE, timeout=timeout, cwd=GEN, text=True)
        rc, so, se = p.returncode, p.stdout, p.stderr
    except subprocess.TimeoutExpired as e:
        rc, so, se = -9, e.stdout or '', (e.stderr or '') + '\nTIMEOUT'
        if isinstance(so, bytes):
            so = so.decode(errors='replace')
        if isinstance(se, bytes):
            se = se.decode(errors='replace')
    wall = time.time() - t0
    try:
        js = json.loads(so)
    except Exception:
        js = None
    diags = []
    raw = []
    for line in se.split('\n'):
        line = line.strip()
        if not line:
            continue
        try:
            d = json.loads(line)
            if isinstance(d, dict) and d.get('$message_type') == 'diagnostic':
                diags.append(d)
                continue
        except Exception:
            pass
        raw.append(line)
    return dict(cmd=' '.join(cmd), rc=rc, json=js, diags=diags, raw=raw, wall=wall)


def fn_short(name):
    """'lib.rs Foca::handle_timer' -> 'Foca::handle_timer'"""
    if not name:
        return None
    parts = name.split(None, 1)
    return parts[1] if len(parts) == 2 else name


def classify(d, meta, genpath):
    msg = d.get('message', '')
    kind = None
    for k, rx in SEMANTIC:
        if rx.search(msg):
            kind = k
            break
    if kind is None:
        kind = 'rlimit' if RLIMIT.search(msg) else 'frontend'
    lm = meta['linemap']
    base = os.path.basename(genpath)
    labels = []
    fn = None
    prim_line = None
    prim_inj = False
    clause_in_prelude = False
    clause_text = None
    for sp in d.get('spans', []):
        ours = os.path.basename(sp.get('file_name', '')) == base
        use = sp.get('is_primary') or ('failed' in (sp.get('label') or ''))
        if not ours:
            if 'failed' in (sp.get('label') or ''):
                clause_in_prelude = True
            continue
        rng = range(sp['line_start'], sp['line_end'] + 1)
        if sp.get('is_primary'):
            prim_line = sp['line_start']
            e = lm.get(str(prim_line)) or lm.get(prim_line)
            if e:
                fn = fn or e.get('fn')
                prim_inj = bool(e.get('inj'))
            clause_text = ' '.join(t['text'].strip() for t in sp.get('text', []))[:300]
        if use:
            for ln in rng:
                e = lm.get(str(ln)) or lm.get(ln)
                if e:
                    labels.extend(e.get('labels', []))
                if not sp.get('is_primary') and 'failed' in (sp.get('label') or '') and (e is None or e.get('fn') is None):
                    # the violated clause is outside every extracted function: a prelude / std stand-in contract
                    clause_in_prelude = True
        if fn is None and ours:
            for ln in rng:
                e = lm.get(str(ln)) or lm.get(ln)
                if e and e.get('fn'):
                    fn = e['fn']
                    break
    if not labels and kind == 'postcondition' and fn is None:
        # the violated clause lives in vstd (e.g. OrdSpecImpl's implicit postcondition of `cmp`): attribute by the function body span
        for sp in d.get('spans', []):
            if os.path.basename(sp.get('file_name', '')) == base:
                for ln in range(sp['line_start'], sp['line_end'] + 1):
                    e = lm.get(str(ln)) or lm.get(ln)
                    if e and e.get('fn'):
                        fn = e['fn']
                        break
    if not labels and fn_short(fn) in (meta.get('fn_labels') or {}):
        labels = list(meta['fn_labels'][fn_short(fn)])
    return dict(kind=kind, message=msg, labels=sorted(set(labels)), fn=fn_short(fn), line=prim_line,
                injected=prim_inj, prelude_clause=clause_in_prelude, text=clause_text,
                rendered=d.get('rendered', ''))


def fn_results(js):
    res = {}
    if not js:
        return res
    try:
        for m in js['times-ms']['smt']['smt-run-module-times']:
            for f in m.get('function-breakdown', []):
                res[f['function']] = dict(ok=f['success'], ms=f['time'], rlimit=f.get('rlimit'))
    except Exception:
        pass
    return res


def unit_labels(meta):
    """{(fn, label)} for every labelled generated line."""
    out = {}
    for ln, e in meta['linemap'].items():
        for l in e.get('labels', []):
            out.setdefault((fn_short(e.get('fn')) or '<lemma/prelude>', l), []).append(int(ln))
    for f, ls in (meta.get('fn_labels') or {}).items():
        for l in ls:
            out.setdefault((f, l), []).append(0)
    return out


def load_known_findings():
    res = []
    p = os.path.join(VERIF, 'known_findings.txt')
    if os.path.exists(p):
        for line in open(p):
            line = line.strip()
            if line.startswith('finding:'):
                kv = dict(re.findall(r'(\w+)=(\S+)', line))
                res.append(dict(property=kv.get('property'), obligation=kv.get('obligation'), site=kv.get('site'), text=line))
    return res


def load_baseline():
    p = os.path.join(VERIF, 'baseline', 'obligations.json')
    if os.path.exists(p):
        return json.load(open(p))
    return None


def scan_assumptions(genpath):
    txt = open(genpath).read()
    inv = {}
    for kw in ('assume(', 'admit(', 'external_body', 'assume_specification', 'external_type_specification',
               'exec_allows_no_decreases_clause', 'external_trait_specification'):
        inv[kw] = txt.count(kw)
    items = [re.sub(r'\s+', ' ', x.strip()) for x in re.findall(r'assume_specification\s*(?:<[^\[]*?>)?\s*\[(.*?)\]\s*\(', txt, re.S)]
    ext = re.findall(r'#\[verifier::external_body\]\s*(?:pub\s+)?(?:fn|struct)\s+(\w+)', txt)
    return inv, sorted(set(items)), sorted(set(ext))


def process_unit(unit, seed=None, rlimit=None, reseed=0, inline=None, relax=None, depth=0):
    """Extract + verify one unit.  Returns a dict with status in {'ok','failed','undecided'}.
    relax=None is the strict attempt.  relax=[...] is the robust re-attempt after a lost anchor / front-end rejection inside one
    function: hints with lost anchors are left out, functions whose rules fail (and the listed ones) are taken contract-only; the
    obligations of those functions are then *undecided*, everything else in the unit is decided as usual."""
    r = dict(unit=unit, status='ok', failures=[], undecided=[], functions={}, labels={}, meta=None, wall=0.0, auto_inlined=inline or [],
             isolated={}, dropped_hints={})
    opts = dict(auto_inline=list(inline or []), drop_lost_hints=relax is not None, isolate=relax is not None, force_stub=set(relax or []))
    try:
        meta, path = generate(unit, opts)
    except extract.ExtractError as e:
        if relax is None:
            return process_unit(unit, seed=seed, rlimit=rlimit, reseed=reseed, inline=inline, relax=[], depth=depth + 1)
        r['status'] = 'undecided'
        r['undecided'].append('extraction: %s' % e)
        return r
    except Exception as e:  # tool crash
        r['status'] = 'undecided'
        r['undecided'].append('extractor crashed: %r' % e)
        return r
    meta['linemap'] = {str(k): v for k, v in meta['linemap'].items()}
    r['meta'] = meta
    r['path'] = path
    r['isolated'] = meta.get('isolated') or {}
    r['dropped_hints'] = meta.get('dropped_hints') or {}
    r['outside_subset'] = {f['name']: f['outside_subset'] for f in meta['functions'] if f.get('outside_subset')}
    r['labels'] = {('%s|%s' % k): v for k, v in unit_labels(meta).items()}
    v = run_verus(path, rlimit=rlimit, seed=seed)
    r['wall'] = v['wall']
    r['cmd'] = v['cmd']
    fr = fn_results(v['json'])
    r['functions'] = fr
    vr = (v['json'] or {}).get('verification-results', {})
    r['verified'] = vr.get('verified')
    r['errors'] = vr.get('errors')
    if inline is None:
        # rule N14: a call to a small helper the templates do not know (added by a refactoring) is inlined at its call sites, once
        unknown = set()
        for d in v['diags']:
            if d.get('level') == 'error':
                m = re.search(r'no method named `(\w+)` found|cannot find function `(\w+)` in this scope|no function or associated item named `(\w+)` found|no associated function or constant named `(\w+)` found', d.get('message', ''))
                if m:
                    unknown.add(next(g for g in m.groups() if g))
        if unknown:
            return process_unit(unit, seed=seed, rlimit=rlimit, reseed=reseed, inline=sorted(unknown), relax=relax, depth=depth + 1)
    # a front-end rejection located inside one function under contract: take that function contract-only and decide the rest
    if depth < 4:
        fe_fns = set()
        for d in v['diags']:
            if d.get('level') == 'error' and not d.get('message', '').startswith('aborting due to'):
                c = classify(d, meta, path)
                if c['kind'] == 'frontend' and c['fn'] and not c['fn'].startswith('vacuity_canary') and c['fn'] not in (relax or []):
                    full = [f['name'] for f in meta['functions'] if f['name'] == c['fn'] or f['name'].endswith('::' + c['fn'])]
                    if full:
                        fe_fns.add(full[0])
        if fe_fns:
            return process_unit(unit, seed=seed, rlimit=rlimit, reseed=reseed, inline=inline, relax=sorted(set(relax or []) | fe_fns), depth=depth + 1)
    canary_failed = False
    for d in v['diags']:
        if d.get('level') != 'error':
            continue
        if d.get('message', '').startswith('aborting due to'):
            continue
        c = classify(d, meta, path)
        if c['text'] and 'vacuity_canary' in (c['rendered'] or '') or (c['fn'] or '').startswith('vacuity_canary'):
            canary_failed = True
            continue
        if c['kind'] == 'frontend':
            r['undecided'].append('front-end: ' + c['message'][:300])
        elif c['kind'] == 'rlimit':
            r['undecided'].append('rlimit/tool: ' + c['message'][:300])
        else:
            r['failures'].append(c)
    only_rlimit = r['undecided'] and all(x.startswith('rlimit/tool') for x in r['undecided'])
    if (r['failures'] and not r['undecided']) or only_rlimit:
        # brittleness filter: a semantic failure must reproduce with another solver seed and 4x the resource limit;
        # a resource-limit failure is retried twice with 4x the limit and counts only if both retries agree on a semantic failure
        def sem(vx):
            out = {}
            for d in vx['diags']:
                if d.get('level') == 'error' and not d.get('message', '').startswith('aborting'):
                    c2 = classify(d, meta, path)
                    if 'vacuity_canary' in (c2['rendered'] or ''):
                        continue
                    out[(c2['fn'], c2['kind'], c2['line'])] = c2
            return out
        v2 = run_verus(path, rlimit=(rlimit or 10) * 4, seed=(reseed or 0) + 7919)
        r['wall'] += v2['wall']
        k2 = sem(v2)
        if only_rlimit:
            v3 = run_verus(path, rlimit=(rlimit or 10) * 4, seed=(reseed or 0) + 104729)
            r['wall'] += v3['wall']
            k3 = sem(v3)
            r['undecided'] = []
            both = [k for k in k2 if k in k3]
            if any(c['kind'] in ('rlimit', 'frontend') for c in list(k2.values()) + list(k3.values())):
                r['undecided'].append('rlimit/tool: resource limit exceeded even at 4x the limit')
            r['failures'] = [k2[k] for k in both if k2[k]['kind'] not in ('rlimit', 'frontend')]
            r['functions'] = fn_results(v2['json']) or r['functions']
        else:
            stable = [c for c in r['failures'] if (c['fn'], c['kind'], c['line']) in k2]
            for c in r['failures']:
                if c not in stable:
                    r['undecided'].append('unstable proof: %s in %s (line %s) failed once but not with seed+7919 / rlimit x4' % (c['kind'], c['fn'], c['line']))
            r['failures'] = stable
    if v['json'] is None or vr.get('encountered-vir-error') or (v['rc'] != 0 and not v['diags']):
        r['undecided'].append('verus produced no result (rc=%s): %s' % (v['rc'], ' | '.join(v['raw'][:5])[:500]))
    # canary: a function named vacuity_canary_* must fail
    has_canary = 'vacuity_canary' in open(path).read()
    if has_canary and v['json'] is not None and not r['undecided']:
        ok = [f for f, x in fr.items() if 'vacuity_canary' in f and x['ok']]
        if ok or not any('vacuity_canary' in f for f in fr):
            if not canary_failed:
                r['undecided'].append('vacuity guard: canary %s verified (contradictory assumptions?)' % ok)
    if r['undecided']:
        r['status'] = 'undecided'
    elif r['failures']:
        r['status'] = 'failed'
    inv, specs, ext = scan_assumptions(path)
    r['assumption_scan'] = dict(counts=inv, assume_specification=specs, external_body=ext)
    return r


def c06_side(c):
    """Unlabelled failures that are panic-freedom obligations of real code (C06.side[f])."""
    if c['labels']:
        return False
    if c['kind'] in ('overflow', 'divzero', 'bitshift', 'unreachable'):
        return not c['injected']
    if c['kind'] == 'precondition':
        # a std / prelude stand-in precondition (index in bounds, unwrap, put_u16 space, ...) at a source call site
        return c['prelude_clause'] and not c['injected']
    if c['kind'] == 'assertion':
        return (not c['injected']) and 'debug_assert' in (c['text'] or '')
    return False


def decide(pid, units, known, baseline):
    """-> (violations, knowns, undecided_reasons, stats)"""
    violations, knowns, undec = [], [], []
    n_obl, n_dis = 0, 0
    samples = []
    for u in units:
        labs = {}
        for k, lines in u['labels'].items():
            fn, lab = k.split('|')
            if lab.split('.')[0] == pid:
                labs[(fn, lab)] = lines
        # every unit handed to decide() serves the property (selected by the labels in its template): a unit that could not be
        # generated or verified makes the property undecided, it is never silently skipped
        if u['status'] == 'undecided':
            undec.extend('%s: %s' % (u['unit'], x) for x in u['undecided'])
            continue
        failed_here = set()
        # functions that could not be brought under contract on this tree: their obligations are undecided, the rest is decided
        for f, info in sorted((u.get('isolated') or {}).items()):
            ls = [l for l in (info.get('labels') or []) if l.split('.')[0] == pid]
            if ls or pid == 'C06':
                undec.append('%s: %s is not under contract on this tree (%s): obligations %s undecided' % (
                    u['unit'], f, (info.get('reason') or 'front end rejects its body')[:160], ', '.join(ls) or 'C06.side'))
        for c in u['failures']:
            short = c['fn'] or ''
            full = [k for k in list((u.get('dropped_hints') or {})) + list((u.get('outside_subset') or {})) if k == short or k.endswith('::' + short)]
            if full and (pid == 'C06' or [l for l in c['labels'] if l.split('.')[0] == pid] or (not c['labels'] and short in set(fn for fn, _ in labs))):
                why = ('uses %s, which Verus handles imprecisely (tools/subset_probes)' % ', '.join(u['outside_subset'][full[0]])
                       if full[0] in (u.get('outside_subset') or {}) else 'proof hints lost their anchors (%s)' % '; '.join(u['dropped_hints'][full[0]])[:160])
                undec.append('%s: a proof step failed in %s, but the function %s: undecided' % (u['unit'], short, why))
                continue
            mine = [l for l in c['labels'] if l.split('.')[0] == pid]
            side = pid == 'C06' and c06_side(c)
            if mine or side:
                lab = mine[0] if mine else 'C06.side[%s]' % (c['fn'] or '?')
                kf = [k for k in known if k['property'] == pid and k['obligation'] in ([lab] + mine) and (k['site'] in (None, c['fn']))]
                rec = dict(unit=u['unit'], fn=c['fn'], obligation=lab, labels=mine, kind=c['kind'], message=c['message'], line=c['line'], clause=c['text'], rendered=c['rendered'])
                if kf:
                    knowns.append((kf[0], rec))
                elif baseline is not None and mine and not any(('%s|%s|%s' % (u['unit'], c['fn'], l)) in baseline or ('%s|%s|%s' % (u['unit'], '<lemma/prelude>', l)) in baseline for l in mine):
                    undec.append('%s: obligation %s in %s fails but was never in the discharged baseline' % (u['unit'], lab, c['fn']))
                else:
                    violations.append(rec)
                for l in mine:
                    failed_here.add((c['fn'], l))
                if side:
                    failed_here.add((c['fn'], 'side'))
            else:
                # failure in a function this property depends on, but no clause of this property failed:
                fns = set(fn for fn, _ in labs)
                if (c['fn'] in fns or pid == 'C06') and not c['labels']:
                    undec.append('%s: unlabelled proof step failed in %s (%s: %s) - contracts need maintenance' % (u['unit'], c['fn'], c['kind'], (c['text'] or '')[:120]))
        # counting
        for (fn, lab), lines in sorted(labs.items()):
            n_obl += 1
            if (fn, lab) not in failed_here:
                n_dis += 1
            if len(samples) < 12:
                samples.append(dict(unit=u['unit'], function=fn, obligation=lab, generated_lines=lines[:4]))
        if pid == 'C06':
            for f, x in sorted(u['functions'].items()):
                if 'vacuity_canary' in f:
                    continue
                n_obl += 1
                short = f.split('::', 1)[1] if '::' in f else f
                if x['ok'] or not any((c['fn'] or '').endswith(short.split('::')[-1]) and c06_side(c) for c in u['failures']):
                    n_dis += 1
    return violations, knowns, undec, dict(obligations=n_obl, discharged=n_dis, samples=samples)


def trusted_base(units):
    tb = []
    for u in units:
        sc = u.get('assumption_scan')
        if not sc:
            continue
        for s in sc['assume_specification']:
            tb.append('assume_specification[%s] (%s unit)' % (s, u['unit']))
        stubs = set(x.split('::')[-1] for x in (u.get('meta') or {}).get('stubs', []))
        for s in sc['external_body']:
            if s in stubs:
                continue  # caller-side view of a function whose real body is verified in its own unit
            tb.append('external_body %s (%s unit)' % (s, u['unit']))
    return sorted(set(tb))


def write_replay(pid, violations, units):
    os.makedirs(os.path.join(VERIF, 'replays'), exist_ok=True)
    path = os.path.join(VERIF, 'replays', '%s-%d.json' % (pid, int(time.time())))
    fnmeta = {}
    for u in units:
        if u.get('meta'):
            for f in u['meta']['functions']:
                fnmeta[f['name']] = f
    out = dict(property=pid, failing_input=None, note='Verus gives no counterexample; see verifier_output',
               failed_obligations=[dict(obligation=v['obligation'], unit=v['unit'], function=v['fn'], kind=v['kind'],
                                        clause=v['clause'], source=fnmeta.get(v['fn']), verifier_output=v['rendered'], kani=v.get('kani')) for v in violations])
    json.dump(out, open(path, 'w'), indent=1)
    return path


def main(argv):
    import shutil
    try:
        return main_(argv)
    finally:
        shutil.rmtree(GEN, ignore_errors=True)


def main_(argv):
    import argparse
    ap = argparse.ArgumentParser()
    ap.add_argument('pid')
    ap.add_argument('--tier', default=os.environ.get('VERIF_TIER', 'quick'))
    ap.add_argument('--replay')
    ap.add_argument('--update-baseline', action='store_true')
    ap.add_argument('--units')
    a = ap.parse_args(argv)
    seed = int(os.environ.get('VERIF_SEED', '0') or 0)
    t0 = time.time()
    pid = a.pid
    if a.replay:
        print(open(a.replay).read())
        return 0
    want = a.units.split(',') if a.units else all_units()
    # which units serve this property?  (labels are in the templates; cheap textual pre-filter)
    if pid != 'C06' and pid != 'ALL':
        want = [u for u in want if re.search(r'\[' + pid + r'\.', open(os.path.join(VERIF, 'contracts', u + '.rs.in')).read()) or
                any(re.search(r'\[' + pid + r'\.', open(p).read()) for p in included(u))]
    with concurrent.futures.ThreadPoolExecutor(max_workers=8) as ex:
        # the deciding run always uses the solver's default seed (deterministic verdict); VERIF_SEED only perturbs the
        # re-runs of the brittleness filter
        units = list(ex.map(lambda u: process_unit(u, seed=None, reseed=seed), want))
    if a.update_baseline:
        base = {}
        for u in units:
            if u['status'] != 'ok':
                print('unit %s not ok: %s %s' % (u['unit'], u['undecided'], [f['message'] for f in u['failures']][:3]))
                return 2
            for k in u['labels']:
                fn, lab = k.split('|')
                base['%s|%s|%s' % (u['unit'], fn, lab)] = True
        os.makedirs(os.path.join(VERIF, 'baseline'), exist_ok=True)
        old = load_baseline() or {}
        if pid != 'ALL' or a.units:
            # a partial run (one property, or selected units) only ever adds to / refreshes the committed baseline
            old = {k: v for k, v in old.items() if k.split('|')[0] not in set(u['unit'] for u in units)} if a.units else old
            old.update(base)
            base = old
        json.dump(base, open(os.path.join(VERIF, 'baseline', 'obligations.json'), 'w'), indent=0, sort_keys=True)
        print('baseline: %d obligations' % len(base))
        return 0
    known = load_known_findings()
    baseline = load_baseline()
    violations, knowns, undec, stats = decide(pid, units, known, baseline)
    # thorough tier: vacuity sweep - every function under contract that serves this property, with `ensures false` added
    # to that function alone, must FAIL (a contradictory precondition or an unreachable body would verify it)
    sweep = {}
    if a.tier == 'thorough' and not violations:
        import vacuity
        for u in units:
            if u['status'] != 'ok' or not u.get('path'):
                continue
            fns = sorted(set(k.split('|')[0] for k in u['labels'] if (pid == 'C06' or k.split('|')[1].split('.')[0] == pid)))
            fns = [f for f in fns if f != '<lemma/prelude>']
            if not fns:
                continue
            res = vacuity.sweep_path(u['path'], u['meta'], only=fns)
            for f, (ok, msg) in res.items():
                sweep['%s:%s' % (u['unit'], f)] = ok
                if not ok:
                    undec.append('vacuity guard: %s in unit %s verifies `ensures false` (or could not be checked): %s' % (f, u['unit'], msg[-200:].replace('\n', ' ')))
    kres = kani_phase(pid, a.tier, units)
    kani_viol = []
    for r in kres:
        if r['kind'] == 'complete' or r['why'] == 'tier':
            stats['obligations'] += 1
            if r['status'] == 'ok':
                stats['discharged'] += 1
        if len(stats['samples']) < 16:
            stats['samples'].append(dict(obligation=r['label'], backend='kani-cbmc %s' % r['kind'], bound=r['bound'], status=r['status'], solver_s=r['solver_s']))
        if r['status'] == 'failed':
            kani_viol.append(r)
        elif r['status'] == 'error':
            undec.append('kani harness %s did not complete: %s' % (r['harness'], r['tail'][-300:].replace('\n', ' ')))
    if kani_viol and not violations:
        # a Kani refutation (complete or bounded) on the real crate is a counterexample, also when Verus could not parse the change
        undec = [x for x in undec if not x.split(': ', 1)[-1].startswith(('front-end', 'extraction', 'verus produced'))] if all(r['why'] == 'fallback' for r in kani_viol) else undec
    wall = time.time() - t0
    # evidence
    ev = dict(property_id=pid, tier=a.tier, seed=seed, level='proof', wall_s=round(wall, 2), violations=len(violations) + len(kani_viol),
              coverage=dict(obligations=stats['obligations'], discharged=stats['discharged'],
                            checker_cmd='; '.join([u.get('cmd', '') for u in units if u.get('cmd')] + [r['cmd'] for r in kres]) or 'none',
                            trusted_base=trusted_base(units), samples=stats['samples'] or ['<none>'],
                            units=[dict(unit=u['unit'], status=u['status'], verus_verified=u.get('verified'), verus_errors=u.get('errors'), solver_wall_s=round(u.get('wall', 0), 2),
                                        functions_under_contract=[dict(name=f['name'], file=f['file'], lines=f['lines'], sha256=f['sha256'], rules=f['rules']) for f in (u.get('meta') or {}).get('functions', [])],
                                        smt=dict((k, v) for k, v in sorted(u.get('functions', {}).items())),
                                        assumption_scan=u.get('assumption_scan', {}).get('counts')) for u in units],
                            kani=[dict((k, v) for k, v in r.items() if k not in ('tail',)) for r in kres],
                            vacuity_sweep=dict(functions=len(sweep), all_fail_as_required=all(sweep.values()) if sweep else None),
                            undecided=undec, known_findings=[k[0]['text'] for k in knowns]),
              assumptions=open(os.path.join(VERIF, 'contracts', 'ASSUMPTIONS.txt')).read().strip().split('\n') if os.path.exists(os.path.join(VERIF, 'contracts', 'ASSUMPTIONS.txt')) else [])
    evdir = os.path.join(VERIF, 'evidence') if os.environ.get('REPO', '/repo') == '/repo' else os.path.join(VERIF, 'gen', 'evidence-scratch')
    os.makedirs(evdir, exist_ok=True)
    json.dump(ev, open(os.path.join(evdir, pid + '.json'), 'w'), indent=1)
    for k, rec in knowns:
        print('KNOWN-FINDING: property=%s %s @ %s: %s' % (pid, rec['obligation'], rec['fn'], k['text']))
    if kani_viol:
        os.makedirs(os.path.join(VERIF, 'replays'), exist_ok=True)
        path = os.path.join(VERIF, 'replays', '%s-kani-%d.json' % (pid, int(time.time())))
        json.dump(dict(property=pid, failed_obligations=[dict(obligation=r['label'], harness=r['harness'], backend='kani-cbmc ' + r['kind'], bound=r['bound'],
                  failed_checks=r['failed_checks'], concrete_playback=r['playback'],
                  how_to_replay='tools/run_kani.sh %s "%s" -Z concrete-playback --concrete-playback=print  (prints a #[test] that calls the real functions with these bytes)' % (r['harness'], ''))
                  for r in kani_viol]), open(path, 'w'), indent=1)
        for r in kani_viol:
            print('failed obligation %s: Kani harness %s (%s) FAILED: %s' % (r['label'], r['harness'], r['kind'], '; '.join(r['failed_checks'])[:300]))
        print('VIOLATION property=%s replay=%s obligation=%s%s' % (pid, path, kani_viol[0]['label'], '' if kani_viol[0]['playback'] else ' no-failing-input-found'))
        return 1
    if violations:
        # for kernels with a Kani harness on the real function: obtain a concrete input (or detect a brittle proof)
        hs = load_harnesses()
        for v in violations:
            for h in hs:
                if v['fn'] in h.get('functions', []) and v['unit'] == h.get('unit'):
                    r = run_kani(h, playback=True)
                    v['kani'] = dict(harness=h['harness'], kind=h['kind'], bound=h.get('bound'), status=r['status'], failed_checks=r['failed_checks'], concrete_playback=r['playback'])
                    break
        if all(v.get('kani', {}).get('status') == 'ok' and v['kani']['kind'] == 'complete' for v in violations):
            for v in violations:
                print('UNDECIDED: %s fails in Verus but the complete Kani harness %s proves the same contract on the real function: brittle proof, not a violation' % (v['obligation'], v['kani']['harness']))
            return 2
        path = write_replay(pid, violations, units)
        for v in violations[:20]:
            print('failed obligation %s in %s [%s unit]: %s' % (v['obligation'], v['fn'], v['unit'], v['message']))
        has_input = any((v.get('kani') or {}).get('concrete_playback') for v in violations)
        print('VIOLATION property=%s replay=%s obligation=%s%s' % (pid, path, violations[0]['obligation'], '' if has_input else ' no-failing-input-found'))
        return 1
    if undec or stats['obligations'] == 0 or stats['discharged'] != stats['obligations']:
        for x in undec[:20]:
            print('UNDECIDED: ' + x)
        if stats['obligations'] == 0:
            print('UNDECIDED: vacuity guard: no obligations generated for ' + pid)
        return 2
    print('OK property=%s obligations=%d discharged=%d units=%s wall=%.1fs' % (pid, stats['obligations'], stats['discharged'], ','.join(u['unit'] for u in units), wall))
    return 0


# ---------------------------------------------------------------- Kani (roles per DESIGN.md 2.5)
def load_harnesses():
    return json.load(open(os.path.join(VERIF, 'kani', 'harnesses.json')))


def run_kani(h, playback=False):
    """Run one harness against a scratch copy of the crate (shared per feature set within this process)."""
    feat = h.get('features', '')
    scratch = os.path.join(GEN, 'kani-' + (feat or 'default'))
    os.makedirs(scratch, exist_ok=True)
    env = dict(os.environ, KANI_SCRATCH=scratch, KANI_TIMEOUT=str(h.get('timeout', 2400)))
    # fully qualified name + --exact: `--harness c20_postcard_member` would also select c20_postcard_member_short
    full = h.get('path') or (('verif_kani::codecs::' if h['harness'].startswith('c20_') else 'verif_kani::') + h['harness'])
    cmd = [os.path.join(VERIF, 'tools', 'run_kani.sh'), full, feat, '--exact']
    if playback:
        cmd += ['-Z', 'concrete-playback', '--concrete-playback=print']
    t0 = time.time()
    p = subprocess.run(cmd, stdout=subprocess.PIPE, stderr=subprocess.STDOUT, text=True, env=env)
    out = p.stdout
    wall = time.time() - t0
    failed = re.findall(r'Failed Checks: (.*)', out)
    m = re.search(r'\*\* (\d+) of (\d+) failed', out)
    if 'VERIFICATION:- SUCCESSFUL' in out:
        status = 'ok'
    elif 'VERIFICATION:- FAILED' in out and m and int(m.group(1)) > 0 and 'out of memory' not in out:
        status = 'failed'  # a real refutation: CBMC reports failed checks (never a timeout / out-of-memory abort)
    else:
        status = 'error'
    vt = re.search(r'Verification Time: ([0-9.]+)s', out)
    pb = ''
    if playback:
        i = out.find('Concrete playback unit test')
        pb = out[i:i + 6000] if i >= 0 else ''
    return dict(harness=h['harness'], status=status, failed_checks=failed[:10], checks=int(m.group(2)) if m else 0,
                solver_s=float(vt.group(1)) if vt else None, wall=round(wall, 1), playback=pb,
                cmd='KANI_SCRATCH=<scratch copy of $REPO> tools/run_kani.sh %s %s --exact' % (full, feat), tail=out[-1500:] if status == 'error' else '')


def kani_phase(pid, tier, units):
    """Harnesses that decide (quick/thorough) or arbitrate a front-end failure (fallback) for this property."""
    hs = [h for h in load_harnesses() if pid in h['properties']]
    chosen = []
    for h in hs:
        if tier in h['tiers'] or (tier == 'thorough' and 'quick' in h['tiers']):
            chosen.append((h, 'tier'))
        elif 'fallback' in h['tiers']:
            for u in units:
                lost = set(u.get('isolated') or {}) | set(u.get('dropped_hints') or {})
                if u['unit'] == h.get('unit') and ((u['status'] == 'undecided' and any(x.startswith(('front-end', 'extraction', 'verus produced')) for x in u['undecided']))
                                                   or any(any(k == f or k.endswith('::' + f) or k.endswith(' ' + f) or k.endswith('::' + f.split('::')[-1]) and f.split('::')[0] in k for k in lost) for f in h.get('functions', []))):
                    chosen.append((h, 'fallback'))
                    break
    def one(hw):
        h, why = hw
        r = run_kani(h)
        if r['status'] == 'failed':
            r2 = run_kani(h, playback=True)
            r['playback'] = r2['playback']
        r['why'] = why
        r['kind'] = h['kind']
        r['bound'] = h.get('bound')
        r['label'] = h['label']
        return r

    # one scratch copy (and cargo target dir) per feature set: the groups run in parallel, the harnesses of a group in sequence
    groups = {}
    for hw in chosen:
        groups.setdefault(hw[0].get('features', ''), []).append(hw)
    with concurrent.futures.ThreadPoolExecutor(max_workers=max(1, len(groups))) as ex:
        parts = list(ex.map(lambda g: [one(hw) for hw in g], groups.values()))
    order = {id(hw[0]): i for i, hw in enumerate(chosen)}
    results = [r for part in parts for r in part]
    results.sort(key=lambda r: [i for i, hw in enumerate(chosen) if hw[0]['harness'] == r['harness']][0])
    return results


def included(unit):
    base = os.path.join(VERIF, 'contracts')
    res = []
    for ln in open(os.path.join(base, unit + '.rs.in')):
        s = ln.strip()
        if s.startswith('//@include '):
            res.append(os.path.join(base, s[len('//@include '):].strip()))
    return res
