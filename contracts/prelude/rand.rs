// ---- trusted prelude: stand-ins for the parts of `rand` that foca calls ----
// A-rng: no assumption on values beyond the range contract => every seed.
trait Rng: Sized {
    // rand::Rng::random_range panics on an empty range: precondition is a C06 obligation
    fn random_range(&mut self, range: core::ops::Range<usize>) -> (r: usize)
        requires range.start < range.end,
        ensures range.start <= r < range.end;
}

impl<R: Rng> Rng for &mut R {
    #[verifier::external_body]
    fn random_range(&mut self, range: core::ops::Range<usize>) -> (r: usize) {
        unimplemented!()
    }
}

spec fn swapped<A>(s: Seq<A>, i: int, j: int) -> Seq<A> { s.update(i, s[j]).update(j, s[i]) }

spec fn apply_swaps<A>(s: Seq<A>, sw: Seq<(int, int)>) -> Seq<A>
    decreases sw.len()
{
    if sw.len() == 0 { s } else { let t = apply_swaps(s, sw.drop_last()); swapped(t, sw.last().0, sw.last().1) }
}

spec fn valid_swaps(n: int, sw: Seq<(int, int)>) -> bool {
    forall|k: int| 0 <= k < sw.len() ==> 0 <= (#[trigger] sw[k]).0 < n && 0 <= sw[k].1 < n
}


trait SliceRandom {
    type Item;
    spec fn elems(&self) -> Seq<Self::Item>;
    // rand::seq::SliceRandom::shuffle: some permutation, any permutation
    fn shuffle<R: Rng>(&mut self, rng: &mut R)
        // Fisher-Yates: the result is the input after some sequence of in-range swaps (any permutation)
        ensures exists|sw: Seq<(int, int)>| valid_swaps(old(self).elems().len() as int, sw)
                    && final(self).elems() == apply_swaps(old(self).elems(), sw);
}

impl<T> SliceRandom for Vec<T> {
    type Item = T;
    spec fn elems(&self) -> Seq<T> { self@ }
    #[verifier::external_body]
    fn shuffle<R: Rng>(&mut self, rng: &mut R) { unimplemented!() }
}

trait IteratorRandom: Sized {
    spec fn lo(&self) -> int;
    spec fn hi(&self) -> int;
    // rand::seq::IteratorRandom::choose on a usize range
    fn choose<R: Rng>(self, rng: &mut R) -> (r: Option<usize>)
        ensures self.lo() < self.hi() ==> r.is_some() && self.lo() <= r.unwrap() < self.hi(),
                self.lo() >= self.hi() ==> r.is_none();
}

impl IteratorRandom for core::ops::Range<usize> {
    spec fn lo(&self) -> int { self.start as int }
    spec fn hi(&self) -> int { self.end as int }
    #[verifier::external_body]
    fn choose<R: Rng>(self, rng: &mut R) -> (r: Option<usize>) { unimplemented!() }
}
