// Probes of Verus' precision on Rust constructs that a refactoring of foca could introduce.  Every function below is correct;
// a construct whose probe FAILS is one Verus handles imprecisely -> functions using it are outside the verified subset
// (tools/extract.py flags them; failures there are "undecided", never a violation).   Run: tools/subset_probes/run.sh
use vstd::prelude::*;
verus! {
pub enum S { A, B, C }
pub struct X { pub s: S, pub n: usize, pub k: u8, pub o: Option<u8>, pub v: Vec<u8> }
impl X {
    fn num(&self) -> (r: usize) ensures r == self.n { self.n }
    fn bump(&mut self) ensures final(self).k == 1, final(self).n == old(self).n, final(self).s == old(self).s, final(self).o == old(self).o, final(self).v == old(self).v { self.k = 1; }

    fn p_match_guard_call(&mut self) ensures final(self).n == old(self).n {
        match self.s { S::A if self.num() > 0 => { self.bump(); } S::B if self.num() == 0 => { self.bump(); } S::A | S::B | S::C => {} }
    }
    fn p_match_guard_field(&mut self) ensures final(self).n == old(self).n {
        match self.s { S::A if self.n > 0 => { self.bump(); } _ => {} }
    }
    fn p_match_guard_local(&mut self) ensures final(self).n == old(self).n {
        let c = self.n > 0;
        match self.s { S::A if c => { self.bump(); } _ => {} }
    }
    fn p_match_guard_value(x: u8, y: u8) -> (r: u8) ensures r == (if x == 1 && y > 3 { 7u8 } else { 0u8 }) {
        match x { 1 if y > 3 => 7, _ => 0 }
    }
    fn p_let_else(&mut self) -> (r: u8) ensures final(self).n == old(self).n, old(self).o.is_none() ==> r == 0 {
        let Some(q) = self.o else { return 0; };
        self.bump();
        q
    }
    fn p_if_let_else(&mut self) -> (r: u8) ensures final(self).n == old(self).n, r == (match old(self).o { Some(q) => q, None => 0u8 }) {
        if let Some(q) = self.o { self.bump(); q } else { 0 }
    }
    fn p_question(&mut self) -> (r: Option<u8>) ensures final(self).n == old(self).n, r == old(self).o {
        let q = self.o?;
        self.bump();
        Some(q)
    }
    fn p_loop_match_break(&mut self) ensures final(self).n == old(self).n {
        loop
            invariant self.n == old(self).n
            decreases self.v@.len()
        {
            match self.v.pop() { Some(_x) => { self.bump(); } None => break }
        }
    }
    fn p_while_let(&mut self) ensures final(self).n == old(self).n {
        while let Some(_x) = self.v.pop()
            invariant self.n == old(self).n
            decreases self.v@.len()
        { self.bump(); }
    }
    fn p_early_return(&mut self) -> (r: bool) ensures final(self).n == old(self).n, r == (old(self).n > 3) {
        if self.n <= 3 { return false; }
        self.bump();
        true
    }
    fn p_bool_temp(&mut self) ensures final(self).n == old(self).n {
        let a = self.n > 1; let b = self.k == 0;
        if a && b { self.bump(); }
    }
    fn p_or_pattern(&mut self) ensures final(self).n == old(self).n {
        match self.s { S::A | S::B => { self.bump(); } S::C => {} }
    }
    fn p_tuple_match(&mut self) ensures final(self).n == old(self).n {
        match (&self.s, self.n > 0) { (S::A, true) => { self.bump(); } _ => {} }
    }
    fn p_nested_if_in_arm(&mut self) ensures final(self).n == old(self).n {
        match self.s { S::A => { if self.num() > 0 { self.bump(); } } _ => {} }
    }
    fn p_if_expr_assign(&mut self) ensures final(self).n == old(self).n, final(self).k == (if old(self).n > 2 { 9u8 } else { 4u8 }) {
        let big = self.n > 2;
        self.k = if big { 9 } else { 4 };
    }
    fn p_ref_binding(&mut self) -> (r: u8) ensures final(self).n == old(self).n, r == (match old(self).o { Some(q) => q, None => 0u8 }) {
        match &self.o { Some(q) => *q, None => 0 }
    }
    fn p_matches_macro(&self) -> (r: bool) ensures r == (self.s is A) {
        matches!(self.s, S::A)
    }
    fn p_labeled_break(&mut self) ensures final(self).n == old(self).n {
        'outer: loop
            invariant self.n == old(self).n
            decreases self.v@.len()
        {
            if self.v.len() == 0 { break 'outer; }
            self.v.pop();
        }
    }
    fn p_struct_field_swap(&mut self) ensures final(self).n == old(self).n, final(self).k == 5, final(self).o == Some(2u8) {
        self.o = Some(2);
        self.k = 5;
    }
}
}
fn main() {}
