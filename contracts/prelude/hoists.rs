// ---- trusted prelude: hoisted iterator-adaptor expressions (rule N8); contracts assumed here, checked bounded by Kani on the real functions ----
// ---------------------------------------------------------------- hoisted iterator expressions (N8)
// H1: `<vec>.iter_mut().find(<pred>)`; the predicate closure stays in the verified text.
#[verifier::external_body]
fn h1_iter_mut_find<'a, A, P: Fn(&A) -> bool>(v: &'a mut Vec<A>, p: P) -> (r: Option<&'a mut A>)
    requires forall|i: int| 0 <= i < old(v)@.len() ==> p.requires((&#[trigger] old(v)@[i],)),
    ensures match r {
        Some(m) => exists|k: int| 0 <= k < old(v)@.len() && p.ensures((&old(v)@[k],), true)
            && (forall|j: int| 0 <= j < k ==> p.ensures((&#[trigger] old(v)@[j],), false))
            && *m == old(v)@[k] && final(v)@ == old(v)@.update(k, *final(m)),
        None => (forall|j: int| 0 <= j < old(v)@.len() ==> p.ensures((&#[trigger] old(v)@[j],), false)) && final(v)@ == old(v)@,
    }
{
    v.iter_mut().find(|m| p(&**m))
}

// H4: `<vec>.iter().skip(n).position(<pred>)`; H5: `<vec>.iter().take(n).position(<pred>)`
#[verifier::external_body]
fn h4_skip_position<A, P: Fn(&A) -> bool>(v: &Vec<A>, n: usize, p: P) -> (r: Option<usize>)
    requires forall|i: int| 0 <= i < v@.len() ==> p.requires((&#[trigger] v@[i],)),
    ensures match r {
        Some(k) => n + k < v@.len() && p.ensures((&v@[n + k],), true)
            && forall|j: int| n <= j < n + k ==> p.ensures((&#[trigger] v@[j],), false),
        None => forall|j: int| n <= j < v@.len() ==> p.ensures((&#[trigger] v@[j],), false),
    }
{
    v.iter().skip(n).position(|m| p(m))
}

#[verifier::external_body]
fn h5_take_position<A, P: Fn(&A) -> bool>(v: &Vec<A>, n: usize, p: P) -> (r: Option<usize>)
    requires forall|i: int| 0 <= i < v@.len() ==> p.requires((&#[trigger] v@[i],)),
    ensures match r {
        Some(k) => k < n && k < v@.len() && p.ensures((&v@[k as int],), true)
            && forall|j: int| 0 <= j < k ==> p.ensures((&#[trigger] v@[j],), false),
        None => forall|j: int| 0 <= j < n && j < v@.len() ==> p.ensures((&#[trigger] v@[j],), false),
    }
{
    v.iter().take(n).position(|m| p(m))
}

// H6: `<vec>.iter().position(<pred>)`, H7: `<vec>.iter().any(<pred>)`
#[verifier::external_body]
fn h6_position<A, P: Fn(&A) -> bool>(v: &Vec<A>, p: P) -> (r: Option<usize>)
    requires forall|i: int| 0 <= i < v@.len() ==> p.requires((&#[trigger] v@[i],)),
    ensures match r {
        Some(k) => k < v@.len() && p.ensures((&v@[k as int],), true)
            && forall|j: int| 0 <= j < k ==> p.ensures((&#[trigger] v@[j],), false),
        None => forall|j: int| 0 <= j < v@.len() ==> p.ensures((&#[trigger] v@[j],), false),
    }
{
    v.iter().position(|m| p(m))
}

#[verifier::external_body]
fn h7_any<A, P: Fn(&A) -> bool>(v: &Vec<A>, p: P) -> (r: bool)
    requires forall|i: int| 0 <= i < v@.len() ==> p.requires((&#[trigger] v@[i],)),
    ensures r ==> exists|k: int| 0 <= k < v@.len() && p.ensures((&v@[k],), true),
            !r ==> forall|j: int| 0 <= j < v@.len() ==> p.ensures((&#[trigger] v@[j],), false),
{
    v.iter().any(|m| p(m))
}

