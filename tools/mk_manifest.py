#!/usr/bin/env python3
"""Regenerates MANIFEST.json from the table below (kept in one place so it is always valid)."""
import json, os
V = os.path.dirname(os.path.dirname(os.path.abspath(__file__)))
TB = ("Trusted: Verus 0.2026.09.13 + Z3; tools/extract.py normalisation rules N1-N10 (DESIGN.md 2.2); the hand-written prelude "
      "(contracts/prelude/*.rs: stand-ins for rand/bytes, assume_specifications for std functions vstd lacks, laws assumed of the user-supplied "
      "Identity/Codec/Runtime/BroadcastHandler); hoisted iterator expressions (external_body helpers h1..h7); termination of iterator loops. "
      "Every remaining assumption is listed per run in the evidence file (trusted_base, assumption_scan).")
CLAIMS = {
 'C01': ("Verus discharges, for all inputs, the precedence table (Member::can_change/change_state == rank order over the full u16 range), the whole-view join "
         "postcondition of Members::apply_existing_if / apply (apply_one spec: conflict winner supersedes, Lost/FailedCondition leave the list untouched), and registration of unknown addresses.",
         "Order/multiplicity independence lemma (L-C01) and apply_many routing are added as the foca unit and lemma unit land; until then this check decides the per-call join only."),
 'C08': ("Verus: num_active == number of active records is part of Members::wf and preserved by every Members operation; the ApplySummary returned mirrors exactly what happened to the record (summary_mirrors).", ""),
 'C09': ("Verus: address uniqueness (Members::wf) preserved by every Members operation; lookup is by address; identity replaced only when the stored identity does not win the conflict (apply_one).", ""),
 'C11': ("Verus: remove_if_down removes only a record with exactly that identity and only if Down; Down never changes by change_state (rank).", ""),
 'C14': ("Verus: Members::next returns the first active record at/after the cursor else the first before it, reshuffles exactly when the cursor ran off the end, forces a reshuffle after a wrap.", "the 2n-1 window lemma is in the lemma unit (pending)"),
}
NA = {
 'C02': 'multi-instance schedules with a timing assumption and a convergence bound: no per-call contract or data-structure invariant expresses it (DESIGN.md 6/8); ingredients proved under C09,C12,C13,C14',
 'C03': 'crash points x schedules of a cluster with a real-time bound: outside what function contracts decide (DESIGN.md 8); ingredients under C10,C11,C12,C14',
 'C04': 'fault position x schedule over a multi-instance run (DESIGN.md 8); the single-instance defect it relates to (F1) was found and fixed through C11',
 'C05': 'partition shapes x heal instants x schedules, convergence (DESIGN.md 8); per-instance reactions under C10,C17,C18,C01',
}
PENDING = {p: 'contracts for this property are not built yet in this revision (work in progress; DESIGN.md 6 has the plan)' for p in
           ['C06','C07','C10','C12','C13','C15','C16','C17','C18','C19','C20']}
def main():
    checks=[]
    for pid,(text,note) in sorted(CLAIMS.items()):
        checks.append(dict(property_id=pid, quick_cmd='./check %s --tier quick'%pid, thorough_cmd='./check %s --tier thorough'%pid,
            evidence_file='/verif/evidence/%s.json'%pid, replay_cmd_template='./check %s --replay {path}'%pid, engine='verus-contracts',
            level_claimed=dict(category='proof', text=text+(' '+note if note else ''), design_ref='DESIGN.md section 6 (%s)'%pid),
            level_note=TB, technique='contract-based deductive verification (Verus) of mechanically extracted real functions'))
    na=[dict(property_id=p, reason=r) for p,r in sorted({**NA, **{p:r for p,r in PENDING.items() if p not in CLAIMS}}.items())]
    m=dict(version=1, setup_cmd='true',
        hooks=dict(guard='caio_foca_verif', enable='none needed: checks read /repo/src directly (no hooks in /repo)', baseline_off_cmd='cd /repo && cargo test --workspace --no-fail-fast --offline', source_commits=[], add_only=True),
        engines=[dict(name='verus-contracts', path='/verif/check', serves_properties=sorted(CLAIMS), kind_free_text='tools/extract.py re-extracts the real functions from /repo/src on every run, splices contracts from contracts/*.rs.in, Verus discharges every obligation')],
        checks=checks, not_applicable=na,
        notes='fix: commits in /repo: 7c736be (C11), e591c9d (C19), 3a729f4 (C06), 4b96cd3 (C18); see known_findings.txt')
    json.dump(m, open(os.path.join(V,'MANIFEST.json'),'w'), indent=1)
main()
