//! Kani harnesses for /verif (copied into a scratch copy of the crate as `src/verif_kani.rs`, behind `#[cfg(kani)]`).
//! Roles (DESIGN.md 2.5): (1) complete, loop-free proofs of the L0 kernels that also yield concrete counterexamples,
//! (2) bounded checks of the functions whose iterator expressions are hoisted in the Verus units,
//! (3) the serde-generated codecs and the float helpers that Verus cannot reach.
#![allow(dead_code)]
use crate::member::{Member, State, ConflictResult, Members};
use crate::{Identity, Invalidates};

fn any_state() -> State {
    match kani::any::<u8>() % 3 {
        0 => State::Alive,
        1 => State::Suspect,
        _ => State::Down,
    }
}

fn rank(i: u16, s: State) -> u32 {
    match s {
        State::Down => 0x20000,
        State::Alive => 2 * (i as u32),
        State::Suspect => 2 * (i as u32) + 1,
    }
}

/// C01.rank: complete over u16 x State x u16 x State (loop-free)
#[kani::proof]
fn kernel_change_state() {
    let (i0, s0, i1, s1) = (kani::any::<u16>(), any_state(), kani::any::<u16>(), any_state());
    let mut m = Member::new(7u8, i0, s0);
    let r = m.change_state(i1, s1);
    assert!(r == (rank(i1, s1) > rank(i0, s0)));
    if r {
        assert!(m.state() == s1 && m.incarnation() == i1);
    } else {
        assert!(m.state() == s0 && m.incarnation() == i0);
    }
    assert!(*m.id() == 7u8);
}

// ---------------------------------------------------------------- bounded stand-ins (N <= 3 records)
#[derive(Clone, Copy, Debug, PartialEq, Eq)]
pub(crate) struct KId {
    addr: u8,
    gen: u8,
}

impl Identity for KId {
    type Addr = u8;
    fn renew(&self) -> Option<Self> {
        None
    }
    fn addr(&self) -> u8 {
        self.addr
    }
    fn win_addr_conflict(&self, adversary: &Self) -> bool {
        self.gen > adversary.gen
    }
}

fn any_kid() -> KId {
    KId { addr: kani::any::<u8>() % 3, gen: kani::any::<u8>() % 2 }
}

fn any_member() -> Member<KId> {
    Member::new(any_kid(), kani::any::<u16>(), any_state())
}

/// up to 3 records with pairwise distinct addresses (Members::wf)
fn any_members() -> Members<KId> {
    let n = kani::any::<u8>() % 4;
    let mut v = alloc::vec::Vec::new();
    let mut i = 0u8;
    while i < n {
        let mut m = any_member();
        m = Member::new(KId { addr: i, gen: m.id().gen }, m.incarnation(), m.state());
        v.push(m);
        i += 1;
    }
    Members::new(v)
}

fn apply_one(m: &Member<KId>, u: &Member<KId>, c: bool) -> (Member<KId>, bool, ConflictResult<KId>) {
    let conflict = m.id() != u.id();
    if conflict && m.id().win_addr_conflict(u.id()) {
        (m.clone(), false, ConflictResult::Lost)
    } else if !c {
        (m.clone(), false, if conflict { ConflictResult::FailedCondition } else { ConflictResult::NoConflict })
    } else if conflict {
        (u.clone(), true, ConflictResult::Replaced(*m.id()))
    } else if rank(u.incarnation(), u.state()) > rank(m.incarnation(), m.state()) {
        (Member::new(*m.id(), u.incarnation(), u.state()), true, ConflictResult::NoConflict)
    } else {
        (m.clone(), false, ConflictResult::NoConflict)
    }
}

/// H1 (iter_mut().find by address) + the whole of apply_existing_if against the spec function, N <= 3
#[kani::proof]
#[kani::unwind(5)]
fn bounded_apply_existing_if() {
    let mut ms = any_members();
    let before: alloc::vec::Vec<Member<KId>> = ms.inner.clone();
    let u = any_member();
    let c = kani::any::<bool>();
    let res = ms.apply_existing_if(u.clone(), |_m| c);
    let k = before.iter().position(|m| m.id().addr() == u.id().addr());
    match k {
        None => {
            assert!(res.is_none());
            assert!(ms.inner == before);
        }
        Some(k) => {
            let (exp, ok, conf) = apply_one(&before[k], &u, c);
            let sm = res.unwrap();
            assert!(sm.apply_successful == ok);
            assert!(sm.conflict == conf);
            assert!(ms.inner.len() == before.len());
            let mut i = 0;
            while i < before.len() {
                if i == k {
                    assert!(ms.inner[i] == exp);
                } else {
                    assert!(ms.inner[i] == before[i]);
                }
                i += 1;
            }
            assert!(sm.is_active_now == ms.inner[k].is_active());
            assert!(sm.changed_active_set == (ms.inner[k].is_active() != before[k].is_active()));
        }
    }
    assert!(ms.num_active() == ms.inner.iter().filter(|m| m.is_active()).count());
}

/// H6 + Option::map desugaring: remove_if_down, N <= 3
#[kani::proof]
#[kani::unwind(5)]
fn bounded_remove_if_down() {
    let mut ms = any_members();
    let before: alloc::vec::Vec<Member<KId>> = ms.inner.clone();
    let id = any_kid();
    let r = ms.remove_if_down(&id);
    let k = before.iter().position(|m| m.id() == &id && m.state() == State::Down);
    match k {
        None => {
            assert!(r.is_none());
            assert!(ms.inner == before);
        }
        Some(k) => {
            let m = r.unwrap();
            assert!(m == before[k]);
            assert!(ms.inner.len() + 1 == before.len());
            let mut i = 0;
            while i < ms.inner.len() {
                if i == k {
                    assert!(ms.inner[i] == before[before.len() - 1]);
                } else {
                    assert!(ms.inner[i] == before[i]);
                }
                i += 1;
            }
        }
    }
}

/// H7: is_active, N <= 3
#[kani::proof]
#[kani::unwind(5)]
fn bounded_is_active() {
    let ms = any_members();
    let id = any_kid();
    let r = ms.is_active(&id);
    let mut exp = false;
    let mut i = 0;
    while i < ms.inner.len() {
        if ms.inner[i].id() == &id && ms.inner[i].is_active() {
            exp = true;
        }
        i += 1;
    }
    assert!(r == exp);
}

/// Members::new (assumed in Verus): num_active counts the active records, cursor starts at 0
#[kani::proof]
#[kani::unwind(5)]
fn bounded_members_new() {
    let ms = any_members();
    let mut n = 0;
    let mut i = 0;
    while i < ms.inner.len() {
        if ms.inner[i].is_active() {
            n += 1;
        }
        i += 1;
    }
    assert!(ms.num_active() == n);
}

// ---------------------------------------------------------------- C20: bundled codecs (serde-generated code: Kani only)
#[cfg(any(feature = "postcard-codec", feature = "bincode-codec"))]
mod codecs {
    use super::any_state;
    use crate::{Codec, Header, Member, Message};
    use bytes::BufMut;

    fn any_message_in(lo: u8, hi: u8) -> Message<u16> {
        let n = kani::any::<u8>();
        let t = kani::any::<u16>();
        let k = kani::any::<u8>();
        kani::assume(lo <= k && k < hi);
        match k {
            0 => Message::Ping(n),
            1 => Message::Ack(n),
            2 => Message::PingReq { target: t, probe_number: n },
            3 => Message::IndirectPing { origin: t, probe_number: n },
            4 => Message::IndirectAck { target: t, probe_number: n },
            5 => Message::ForwardedAck { origin: t, probe_number: n },
            6 => Message::Announce,
            7 => Message::Feed,
            8 => Message::Gossip,
            9 => Message::Broadcast,
            _ => Message::TurnUndead,
        }
    }

    /// decode(encode(m) ++ tail) == m, consuming exactly |encode(m)| (stack buffers only: no allocator modelling)
    fn member_roundtrip<C: Codec<u16>>(mut codec: C) {
        let m = Member::new(kani::any::<u16>(), kani::any::<u16>(), any_state());
        let mut buf = [0u8; 12];
        let n = {
            let mut w = &mut buf[..];
            assert!(codec.encode_member(&m, &mut w).is_ok());
            12 - w.remaining_mut()
        };
        assert!(n >= 1 && n <= 8);
        buf[n] = kani::any::<u8>();
        let mut rd = &buf[..n + 1];
        let back = codec.decode_member(&mut rd);
        assert!(back.is_ok());
        assert!(back.unwrap() == m);
        assert!(rd.len() == 1);
    }

    /// insufficient space (every size below the minimum encoded length): an error, never a panic, never a write past the limit
    fn member_short<C: Codec<u16>>(mut codec: C) {
        let m = Member::new(kani::any::<u16>(), kani::any::<u16>(), any_state());
        let short = kani::any::<usize>();
        kani::assume(short < 3);
        let mut buf = [0u8; 4];
        let mut w = &mut buf[..short];
        // a Member<u16> needs at least 3 bytes in both codecs
        assert!(codec.encode_member(&m, &mut w).is_err());
    }

    fn header_roundtrip<C: Codec<u16>>(mut codec: C, lo: u8, hi: u8) {
        let h = Header { src: kani::any::<u16>(), src_incarnation: kani::any::<u16>(), dst: kani::any::<u16>(), message: any_message_in(lo, hi) };
        let mut buf = [0u8; 24];
        let n = {
            let mut w = &mut buf[..];
            assert!(codec.encode_header(&h, &mut w).is_ok());
            24 - w.remaining_mut()
        };
        assert!(n >= 4 && n <= 20);
        buf[n] = kani::any::<u8>();
        let mut rd = &buf[..n + 1];
        let back = codec.decode_header(&mut rd);
        assert!(back.is_ok());
        assert!(back.unwrap() == h);
        assert!(rd.len() == 1);
    }

    /// arbitrary bytes (and thereby every truncation of a valid encoding of up to N bytes) decode to a value or an error:
    /// no panic, never reads past the input
    fn decode_garbage<C: Codec<u16>>(mut codec: C) {
        let bytes: [u8; 6] = kani::any();
        let len = kani::any::<usize>();
        kani::assume(len <= 6);
        let mut rd = &bytes[..len];
        let _ = codec.decode_member(&mut rd);
        assert!(rd.len() <= len);
        let mut rd2 = &bytes[..len];
        let _ = codec.decode_header(&mut rd2);
        assert!(rd2.len() <= len);
    }

    #[cfg(feature = "postcard-codec")]
    #[kani::proof]
    #[kani::unwind(12)]
    fn c20_postcard_member() {
        member_roundtrip(crate::PostcardCodec);
    }

    #[cfg(feature = "postcard-codec")]
    #[kani::proof]
    #[kani::unwind(12)]
    fn c20_postcard_member_short() {
        member_short(crate::PostcardCodec);
    }

    #[cfg(feature = "bincode-codec")]
    #[kani::proof]
    #[kani::unwind(12)]
    fn c20_bincode_member_short() {
        member_short(crate::BincodeCodec(bincode::config::standard()));
    }

    #[cfg(feature = "postcard-codec")]
    #[kani::proof]
    #[kani::unwind(12)]
    fn c20_postcard_header_a() {
        header_roundtrip(crate::PostcardCodec, 0, 2); // Ping, Ack
    }

    #[cfg(feature = "postcard-codec")]
    #[kani::proof]
    #[kani::unwind(12)]
    fn c20_postcard_header_b() {
        header_roundtrip(crate::PostcardCodec, 2, 6); // PingReq, IndirectPing, IndirectAck, ForwardedAck
    }

    #[cfg(feature = "postcard-codec")]
    #[kani::proof]
    #[kani::unwind(12)]
    fn c20_postcard_header_c() {
        header_roundtrip(crate::PostcardCodec, 6, 11); // Announce, Feed, Gossip, Broadcast, TurnUndead
    }

    #[cfg(feature = "postcard-codec")]
    #[kani::proof]
    #[kani::unwind(12)]
    fn c20_postcard_garbage() {
        decode_garbage(crate::PostcardCodec);
    }

    #[cfg(feature = "bincode-codec")]
    #[kani::proof]
    #[kani::unwind(12)]
    fn c20_bincode_member() {
        member_roundtrip(crate::BincodeCodec(bincode::config::standard()));
    }

    /// the same round trip, split by the width of bincode's variable-length integers (one byte below 251, marker + 2 bytes above)
    fn member_roundtrip_split<C: Codec<u16>>(mut codec: C, wide_id: bool, wide_inc: bool) {
        let (id, inc) = (kani::any::<u16>(), kani::any::<u16>());
        kani::assume((id >= 251) == wide_id);
        kani::assume((inc >= 251) == wide_inc);
        let m = Member::new(id, inc, any_state());
        let mut buf = [0u8; 12];
        let n = {
            let mut w = &mut buf[..];
            assert!(codec.encode_member(&m, &mut w).is_ok());
            12 - w.remaining_mut()
        };
        assert!(n >= 1 && n <= 8);
        buf[n] = kani::any::<u8>();
        let mut rd = &buf[..n + 1];
        let back = codec.decode_member(&mut rd);
        assert!(back.is_ok());
        assert!(back.unwrap() == m);
        assert!(rd.len() == 1);
    }

    #[cfg(feature = "bincode-codec")]
    #[kani::proof]
    #[kani::unwind(12)]
    fn c20_bincode_member_nn() {
        member_roundtrip_split(crate::BincodeCodec(bincode::config::standard()), false, false);
    }

    #[cfg(feature = "bincode-codec")]
    #[kani::proof]
    #[kani::unwind(12)]
    fn c20_bincode_member_wn() {
        member_roundtrip_split(crate::BincodeCodec(bincode::config::standard()), true, false);
    }

    #[cfg(feature = "bincode-codec")]
    #[kani::proof]
    #[kani::unwind(12)]
    fn c20_bincode_member_nw() {
        member_roundtrip_split(crate::BincodeCodec(bincode::config::standard()), false, true);
    }

    #[cfg(feature = "bincode-codec")]
    #[kani::proof]
    #[kani::unwind(12)]
    fn c20_bincode_member_ww() {
        member_roundtrip_split(crate::BincodeCodec(bincode::config::standard()), true, true);
    }

    #[cfg(feature = "bincode-codec")]
    #[kani::proof]
    #[kani::unwind(12)]
    fn c20_bincode_header_a() {
        header_roundtrip(crate::BincodeCodec(bincode::config::standard()), 0, 2);
    }

    #[cfg(feature = "bincode-codec")]
    #[kani::proof]
    #[kani::unwind(12)]
    fn c20_bincode_header_b() {
        header_roundtrip(crate::BincodeCodec(bincode::config::standard()), 2, 6);
    }

    #[cfg(feature = "bincode-codec")]
    #[kani::proof]
    #[kani::unwind(12)]
    fn c20_bincode_header_c() {
        header_roundtrip(crate::BincodeCodec(bincode::config::standard()), 6, 11);
    }

    #[cfg(feature = "bincode-codec")]
    #[kani::proof]
    #[kani::unwind(12)]
    fn c20_bincode_garbage() {
        decode_garbage(crate::BincodeCodec(bincode::config::standard()));
    }
}

// ---------------------------------------------------------------- C06.config: the float helpers, every NonZeroU32
#[cfg(feature = "std")]
#[kani::proof]
fn c06_config_new_lan() {
    let n: core::num::NonZeroU32 = kani::any();
    let c = crate::Config::new_lan(n);
    assert!(c.max_transmissions.get() >= 1);
}

#[cfg(feature = "std")]
#[kani::proof]
fn c06_config_new_wan() {
    let n: core::num::NonZeroU32 = kani::any();
    let c = crate::Config::new_wan(n);
    assert!(c.max_transmissions.get() >= 1);
}

// ---------------------------------------------------------------- more bounded stand-ins
/// RNG whose shuffles/choices are nondeterministic (covers every seed); next() uses shuffle only
struct AnyRng;
impl rand::RngCore for AnyRng {
    fn next_u32(&mut self) -> u32 {
        kani::any()
    }
    fn next_u64(&mut self) -> u64 {
        kani::any()
    }
    fn fill_bytes(&mut self, dst: &mut [u8]) {
        for b in dst.iter_mut() {
            *b = kani::any();
        }
    }
}

/// H4/H5 (skip/take + position) + the cursor logic of Members::next, N <= 3, cursor below the length (no reshuffle) or usize::MAX-like
#[kani::proof]
#[kani::unwind(5)]
fn bounded_next() {
    let mut ms = any_members();
    let before: alloc::vec::Vec<Member<KId>> = ms.inner.clone();
    let n = before.len();
    // drive the cursor to an arbitrary in-range position by construction: Members::new starts at 0; apply nothing.
    // (the reshuffle path is covered by the Verus proof against the shuffle stand-in; here the scans are checked on the real text)
    let r = ms.next(AnyRng).cloned();
    // cursor was 0 < n or n == 0 (then shuffle of the empty list)
    let mut first = None;
    let mut i = 0;
    while i < n {
        if first.is_none() && before[i].is_active() {
            first = Some(i);
        }
        i += 1;
    }
    match first {
        Some(p) => {
            assert!(n > 0);
            assert!(r.is_some());
            assert!(r.unwrap() == before[p]);
        }
        None => assert!(r.is_none() || n == 0),
    }
}

#[derive(Clone, Copy, PartialEq, Eq, Debug)]
struct KKey {
    k: u8,
    wide: bool,
}
impl Invalidates for KKey {
    // same key, or a "wide" key that invalidates every other key (one-to-many)
    fn invalidates(&self, other: &Self) -> bool {
        self.k == other.k || self.wide
    }
}

/// add_or_replace against its contract on a real BinaryHeap, <= 3 queued entries
#[kani::proof]
#[kani::unwind(6)]
fn bounded_add_or_replace() {
    let mut b: crate::broadcast::Broadcasts<KKey> = crate::broadcast::Broadcasts::new();
    let n = kani::any::<u8>() % 4;
    let mut keys = [KKey { k: 0, wide: false }; 3];
    let mut i = 0u8;
    while i < n {
        // distinct, non-wide keys so that nothing is invalidated while setting up
        let key = KKey { k: i, wide: false };
        keys[i as usize] = key;
        b.add_or_replace(key, alloc::vec![i], 1 + (kani::any::<u8>() % 2) as usize);
        i += 1;
    }
    assert!(b.len() == n as usize);
    let item = KKey { k: kani::any::<u8>() % 4, wide: kani::any() };
    let mut survivors = 0usize;
    let mut j = 0u8;
    while j < n {
        if !item.invalidates(&keys[j as usize]) {
            survivors += 1;
        }
        j += 1;
    }
    b.add_or_replace(item, alloc::vec![9], 3);
    // everything the new key invalidates is gone, everything else stays, plus the new entry
    assert!(b.len() == survivors + 1);
}

/// choose_active_members: every pick is an active record accepted by the picker, distinct positions, at most `wanted`; N <= 3
#[kani::proof]
#[kani::unwind(6)]
fn bounded_choose_active_members() {
    let ms = any_members();
    let wanted = (kani::any::<u8>() % 3) as usize;
    let excl = any_kid();
    let mut out: alloc::vec::Vec<Member<KId>> = alloc::vec::Vec::new();
    ms.choose_active_members(wanted, &mut out, AnyRng, |id| *id != excl);
    assert!(out.len() <= wanted);
    let mut eligible = 0usize;
    let mut i = 0;
    while i < ms.inner.len() {
        if ms.inner[i].is_active() && *ms.inner[i].id() != excl {
            eligible += 1;
        }
        i += 1;
    }
    assert!(out.len() == if eligible < wanted { eligible } else { wanted });
    let mut j = 0;
    while j < out.len() {
        assert!(out[j].is_active());
        assert!(*out[j].id() != excl);
        assert!(ms.inner.iter().any(|m| *m == out[j]));
        let mut k = 0;
        while k < j {
            assert!(out[k].id().addr() != out[j].id().addr());
            k += 1;
        }
        j += 1;
    }
}

// ---------------------------------------------------------------- conformance of the assumed hoist contracts (contracts/prelude/hoists.rs)
// Each harness evaluates the very expression the helper's external_body holds, on real std iterators, and asserts the helper's
// `ensures` clause - for every vector of up to 4 elements, every start/end position and every predicate (a symbolic truth table
// over the elements' low two bits).  A failure here means the *prelude* is wrong (not foca); it cannot be caused by a change to /repo.
fn any_vec4() -> alloc::vec::Vec<u8> {
    let n: usize = kani::any();
    kani::assume(n <= 4);
    let mut v = alloc::vec::Vec::new();
    let mut i = 0;
    while i < n {
        v.push(kani::any());
        i += 1;
    }
    v
}

#[kani::proof]
#[kani::unwind(6)]
fn hoist_h4_skip_position() {
    let v = any_vec4();
    let n: usize = kani::any();
    kani::assume(n <= 6);
    let t: [bool; 4] = kani::any();
    let p = |m: &u8| t[(*m & 3) as usize];
    let r = v.iter().skip(n).position(|m| p(m));
    match r {
        Some(k) => {
            assert!(n + k < v.len());
            assert!(p(&v[n + k]));
            let mut j = n;
            while j < n + k {
                assert!(!p(&v[j]));
                j += 1;
            }
        }
        None => {
            let mut j = n;
            while j < v.len() {
                assert!(!p(&v[j]));
                j += 1;
            }
        }
    }
}

#[kani::proof]
#[kani::unwind(6)]
fn hoist_h5_take_position() {
    let v = any_vec4();
    let n: usize = kani::any();
    let t: [bool; 4] = kani::any();
    let p = |m: &u8| t[(*m & 3) as usize];
    let r = v.iter().take(n).position(|m| p(m));
    match r {
        Some(k) => {
            assert!(k < n && k < v.len());
            assert!(p(&v[k]));
            let mut j = 0;
            while j < k {
                assert!(!p(&v[j]));
                j += 1;
            }
        }
        None => {
            let mut j = 0;
            while j < n && j < v.len() {
                assert!(!p(&v[j]));
                j += 1;
            }
        }
    }
}

#[kani::proof]
#[kani::unwind(6)]
fn hoist_h6_h7_position_any() {
    let v = any_vec4();
    let t: [bool; 4] = kani::any();
    let p = |m: &u8| t[(*m & 3) as usize];
    let r = v.iter().position(|m| p(m));
    let a = v.iter().any(|m| p(m));
    match r {
        Some(k) => {
            assert!(k < v.len());
            assert!(p(&v[k]));
            let mut j = 0;
            while j < k {
                assert!(!p(&v[j]));
                j += 1;
            }
            assert!(a);
        }
        None => {
            let mut j = 0;
            while j < v.len() {
                assert!(!p(&v[j]));
                j += 1;
            }
            assert!(!a);
        }
    }
}

#[kani::proof]
#[kani::unwind(6)]
fn hoist_h1_iter_mut_find() {
    let mut v = any_vec4();
    let before = v.clone();
    let t: [bool; 4] = kani::any();
    let p = |m: &u8| t[(*m & 3) as usize];
    let w: u8 = kani::any();
    let mut hit = None;
    {
        let r = v.iter_mut().find(|m| p(&**m));
        if let Some(m) = r {
            hit = Some(*m);
            *m = w; // a write through the returned reference lands in exactly the found slot
        }
    }
    let mut first = None;
    let mut j = 0;
    while j < before.len() {
        if first.is_none() && p(&before[j]) {
            first = Some(j);
        }
        j += 1;
    }
    match first {
        Some(k) => {
            assert!(hit == Some(before[k]));
            assert!(v.len() == before.len());
            let mut j = 0;
            while j < v.len() {
                assert!(v[j] == if j == k { w } else { before[j] });
                j += 1;
            }
        }
        None => {
            assert!(hit.is_none());
            assert!(v == before);
        }
    }
}
