// ---- trusted prelude: `==`/`!=` on core::time::Duration is structural equality (vstd does not specify it) ----
#[verifier::external_body]
proof fn axiom_std_eq()
    ensures
        <Duration as PartialEqSpec>::obeys_eq_spec(),
        forall|a: Duration, b: Duration| #[trigger] PartialEqSpec::eq_spec(&a, &b) == (a == b),
{
}
