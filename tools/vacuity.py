#!/usr/bin/env python3
"""vacuity sweep: for each function under contract in a generated unit, add `ensures false` to that function alone and
verify only that function: it must FAIL.  usage: vacuity.py <unit> [name-substring ...]"""
import sys, os, re, subprocess, json, concurrent.futures
V = os.path.dirname(os.path.dirname(os.path.abspath(__file__)))
def sweep(unit, only=None, jobs=12):
    gen = os.path.join(V, 'gen', unit + '.rs')
    meta = json.load(open(gen + '.meta.json'))
    return sweep_path(gen, meta, only, jobs)


def sweep_path(gen, meta, only=None, jobs=12):
    unit = os.path.basename(gen)[:-3]
    src = open(gen).read()
    lines = src.split('\n')
    lm = {int(k): v for k, v in meta['linemap'].items()}
    # function -> first generated line of its block
    starts = {}
    for ln in sorted(lm):
        f = lm[ln].get('fn')
        if f and f not in starts:
            starts[f] = ln
    res = {}
    def one(f):
        name = f.split('::')[-1]
        if only and not any(f.endswith(o) for o in only):
            return f, None
        # find the signature line `fn name` at or after starts[f]
        i = starts[f] - 1
        while i < len(lines) and not re.search(r'\bfn\s+' + re.escape(name) + r'\b', lines[i]):
            i += 1
        # find the body-opening line: first line that is exactly '{' or endswith '{' after signature and spec
        j = i
        txt = '\n'.join(lines)
        off = sum(len(l) + 1 for l in lines[:i])
        # locate 'ensures' keyword within the spec (before body); else insert before body brace
        m = re.compile(r'\bensures\b').search(txt, off)
        # body start: first '\n{' or ' {\n' after signature at depth 0: approximate with the injected spec end
        b = txt.find('\n{', off)
        b2 = re.compile(r'\)\s*(->[^{;]*)?\{').search(txt, off)
        body = min(x for x in [b if b >= 0 else 10**9, b2.end() - 1 if b2 else 10**9])
        if m and m.start() < body:
            new = txt[:m.end()] + ' false,' + txt[m.end():]
        else:
            new = txt[:body] + '\n ensures false\n' + txt[body:]
        p = os.path.join(os.path.dirname(gen), 'vac_%s_%s.rs' % (unit, re.sub(r'\W', '_', f)))
        open(p, 'w').write(new)
        r = subprocess.run(['verus', p, '--verify-root', '--verify-function', '*' + name, '--multiple-errors', '1'],
                           stdout=subprocess.PIPE, stderr=subprocess.STDOUT, text=True, cwd=V)
        os.remove(p)
        ok = re.search(r'verification results:: (\d+) verified, (\d+) errors', r.stdout)
        return f, (ok and int(ok.group(2)) > 0, r.stdout[-300:] if not ok else '')
    with concurrent.futures.ThreadPoolExecutor(max_workers=jobs) as ex:
        for f, r in ex.map(one, sorted(starts)):
            if r is not None:
                res[f] = r
    return res
if __name__ == '__main__':
    r = sweep(sys.argv[1], sys.argv[2:] or None)
    bad = [f for f, (ok, _) in r.items() if not ok]
    for f, (ok, msg) in sorted(r.items()):
        print('%-60s %s %s' % (f, 'fails-as-required' if ok else 'VACUOUS-OR-ERROR', msg.replace('\n', ' ')[:200] if not ok else ''))
    sys.exit(1 if bad else 0)
