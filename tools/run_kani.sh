#!/bin/bash
# usage: run_kani.sh <harness> [cargo-features] [extra kani args...]
# Runs one Kani harness of /verif/kani/verif_kani.rs against a scratch copy of the crate at $REPO (default /repo working tree).
set -u
h=$1; feat=${2:-}; shift; shift 2>/dev/null
SRC=${REPO:-/repo}
d=${KANI_SCRATCH:-$(mktemp -d /tmp/verif_kani.XXXXXX)}
own=0; [ -z "${KANI_SCRATCH:-}" ] && own=1
[ $own -eq 1 ] && trap 'rm -rf "$d"' EXIT
if [ ! -f "$d/Cargo.toml" ]; then
  rsync -a --exclude target --exclude .git "$SRC"/ "$d"/
  cp /verif/kani/*.rs "$d/src/"
  printf '\n#[cfg(kani)]\nmod verif_kani;\n' >> "$d/src/lib.rs"
  # kernels on module-private items: appended to the module itself (kani/inline/<module>.rs -> src/<module>.rs)
  for f in /verif/kani/inline/*.rs; do [ -f "$f" ] && cat "$f" >> "$d/src/$(basename "$f")"; done
  [ -f "$d/src/codec/verif_kani_codec.rs" ] || true
fi
cd "$d"
F=""; [ -n "$feat" ] && F="--features $feat"
# memory watchdog: CBMC on serde/Arc-heavy code can eat every byte of RAM (no swap here)
ulimit -v ${KANI_MEM_KB:-20000000}
CARGO_NET_OFFLINE=true timeout ${KANI_TIMEOUT:-1500} cargo kani $F --harness "$h" "$@" 2>&1
