// ---------------------------------------------------------------------------------------------
// L-C01: the per-address join `apply_one` (the spec function in the contracts of apply_existing_if / apply /
// apply_update) is a maximum w.r.t. the SWIM precedence order, hence folding it over a collection of updates
// gives a result that depends only on the *set* of updates: not on order, not on multiplicity (up to the
// incarnation remembered next to Down).  Assumption A-win-order: on the identities involved `wins` is a strict
// total order (asymmetric, total on distinct identities, transitive).
// ---------------------------------------------------------------------------------------------

spec fn fold_join<T: Identity>(init: Option<Member<T>>, s: Seq<Member<T>>) -> Option<Member<T>>
    decreases s.len()
{
    if s.len() == 0 { init } else { join1(fold_join(init, s.drop_last()), s.last()) }
}

// the SWIM precedence order on records of one address: the conflict winner first, then Down > higher incarnation > Suspect over Alive
spec fn prec_le<T: Identity>(u: Member<T>, v: Member<T>) -> bool {
    if u.id == v.id { rank(u.incarnation, u.state) <= rank(v.incarnation, v.state) } else { v.id.wins(&u.id) }
}

// same identity, same state, same incarnation unless Down ("only the incarnation remembered next to Down may differ")
spec fn same_knowledge<T: Identity>(u: Member<T>, v: Member<T>) -> bool {
    u.id == v.id && u.state == v.state && (u.state != State::Down ==> u.incarnation == v.incarnation)
}

// the identities a collection of updates talks about
spec fn in_ids<T: Identity>(init: Option<Member<T>>, s: Seq<Member<T>>, id: T) -> bool {
    (init.is_some() && init.unwrap().id == id) || exists|i: int| 0 <= i < s.len() && (#[trigger] s[i]).id == id
}

// A-win-order on those identities
spec fn win_order<T: Identity>(ini: Option<Member<T>>, ss: Seq<Member<T>>) -> bool {
    &&& forall|a: T, b: T| in_ids(ini, ss, a) && in_ids(ini, ss, b) && a != b ==> (#[trigger] a.wins(&b) != b.wins(&a))
    &&& forall|a: T, b: T, c: T| in_ids(ini, ss, a) && in_ids(ini, ss, b) && in_ids(ini, ss, c) && #[trigger] a.wins(&b) && #[trigger] b.wins(&c) ==> a.wins(&c)
}

proof fn lemma_rank_props(i: u16, s: State, j: u16, t: State)
    ensures rank(i, s) == rank(j, t) ==> s == t && (s != State::Down ==> i == j)
{
}

proof fn lemma_prec_antisym<T: Identity>(u: Member<T>, v: Member<T>, ini: Option<Member<T>>, ss: Seq<Member<T>>)
    requires win_order(ini, ss), in_ids(ini, ss, u.id), in_ids(ini, ss, v.id), prec_le(u, v), prec_le(v, u)
    ensures same_knowledge(u, v)
{
    if u.id == v.id { lemma_rank_props(u.incarnation, u.state, v.incarnation, v.state); }
}

// one join step yields an upper bound of both arguments that is (knowledge-)equal to one of them  [C01.order]
proof fn lemma_join_max<T: Identity>(m: Member<T>, u: Member<T>, ini: Option<Member<T>>, ss: Seq<Member<T>>)
    requires win_order(ini, ss), in_ids(ini, ss, m.id), in_ids(ini, ss, u.id)
    ensures ({
        let r = apply_one(m, u, true).0;
        prec_le(m, r) && prec_le(u, r) && (r == m || r == u || (r.id == u.id && r.incarnation == u.incarnation && r.state == u.state))
    })
{
}

proof fn lemma_prec_trans<T: Identity>(a: Member<T>, b: Member<T>, c: Member<T>, ini: Option<Member<T>>, ss: Seq<Member<T>>)
    requires win_order(ini, ss), in_ids(ini, ss, a.id), in_ids(ini, ss, b.id), in_ids(ini, ss, c.id), prec_le(a, b), prec_le(b, c)
    ensures prec_le(a, c)
{
    if a.id == b.id {
    } else if b.id == c.id {
    } else if a.id == c.id {
        // b wins a, c wins b, and c == a as identities: impossible in a strict order
        assert(b.id.wins(&a.id) && c.id.wins(&b.id));
        assert(a.id.wins(&b.id));
    } else {
        assert(c.id.wins(&b.id) && b.id.wins(&a.id));
    }
}

// the fold is an upper bound of everything seen and equals (as knowledge) something seen  [C01.order]
proof fn lemma_fold_max<T: Identity>(init: Option<Member<T>>, s: Seq<Member<T>>)
    requires win_order(init, s), init.is_some() || s.len() > 0
    ensures ({
        let r = fold_join(init, s).unwrap();
        &&& fold_join(init, s).is_some() && in_ids(init, s, r.id)
        &&& (init.is_some() ==> prec_le(init.unwrap(), r))
        &&& forall|i: int| 0 <= i < s.len() ==> prec_le(#[trigger] s[i], r)
        &&& ((init.is_some() && same_knowledge(init.unwrap(), r)) || exists|i: int| 0 <= i < s.len() && same_knowledge(#[trigger] s[i], r))
    })
    decreases s.len()
{
    let ini = init; let ss = s;
    if s.len() == 0 {
    } else {
        let p = s.drop_last();
        let u = s.last();
        assert(in_ids(ini, ss, u.id)) by { assert(s[s.len() - 1].id == u.id); }
        assert forall|id: T| in_ids(init, p, id) implies in_ids(ini, ss, id) by {
            if !(init.is_some() && init.unwrap().id == id) {
                let i = choose|i: int| 0 <= i < p.len() && (#[trigger] p[i]).id == id;
                assert(s[i].id == id);
            }
        }
        assert(win_order(init, p));
        if init.is_none() && p.len() == 0 {
            assert(fold_join(init, p).is_none());
            assert(fold_join(init, s) == Some(u));
            assert(same_knowledge(s[s.len() - 1], u));
        } else {
            lemma_fold_max(init, p);
            let m = fold_join(init, p).unwrap();
            let r = apply_one(m, u, true).0;
            assert(fold_join(init, s) == Some(r));
            lemma_join_max(m, u, ini, ss);
            if init.is_some() { lemma_prec_trans(init.unwrap(), m, r, ini, ss); }
            assert forall|i: int| 0 <= i < s.len() implies prec_le(#[trigger] s[i], r) by {
                if i < p.len() {
                    assert(p[i] == s[i]);
                    assert(in_ids(ini, ss, s[i].id));
                    lemma_prec_trans(s[i], m, r, ini, ss);
                }
            }
            if r == m {
                if !(init.is_some() && same_knowledge(init.unwrap(), m)) {
                    let i = choose|i: int| 0 <= i < p.len() && same_knowledge(#[trigger] p[i], m);
                    assert(p[i] == s[i]);
                }
            } else {
                assert(same_knowledge(s[s.len() - 1], r));
            }
        }
    }
}

// same updates, whatever the order and the multiplicity
spec fn has<T>(s: Seq<Member<T>>, x: Member<T>) -> bool { exists|j: int| 0 <= j < s.len() && s[j] == x }

proof fn lemma_has<T>(s: Seq<Member<T>>, j: int)
    requires 0 <= j < s.len()
    ensures has(s, s[j])
{
}

spec fn same_elems<T>(s: Seq<Member<T>>, t: Seq<Member<T>>) -> bool { forall|x: Member<T>| #[trigger] has(s, x) == has(t, x) }

// L C01.order: two collections containing the same updates (any order, any multiplicity) give the same knowledge  [C01.order]
proof fn lemma_c01_order_independent<T: Identity>(s: Seq<Member<T>>, t: Seq<Member<T>>)
    requires
        s.len() > 0,
        same_elems(s, t),
        win_order(None, s),
    ensures
        same_knowledge(fold_join(None, s).unwrap(), fold_join(None, t).unwrap()), // [C01.order]
{
    let ini = None::<Member<T>>; let ss = s;
    assert(t.len() > 0) by { lemma_has(s, 0); assert(has(t, s[0])); }
    assert forall|id: T| in_ids(None::<Member<T>>, t, id) implies in_ids(ini, ss, id) by {
        let j = choose|j: int| 0 <= j < t.len() && (#[trigger] t[j]).id == id;
        lemma_has(t, j); assert(has(s, t[j]));
        let i = choose|i: int| 0 <= i < s.len() && s[i] == t[j];
        assert(s[i].id == id);
    }
    assert(win_order(None::<Member<T>>, t));
    lemma_fold_max(None, s);
    lemma_fold_max(None, t);
    let rs = fold_join(None, s).unwrap();
    let rt = fold_join(None, t).unwrap();
    // rs is knowledge-equal to some s[i] = t[j] <= rt, and symmetrically
    let i = choose|i: int| 0 <= i < s.len() && same_knowledge(#[trigger] s[i], rs);
    lemma_has(s, i); assert(has(t, s[i]));
    let j = choose|j: int| 0 <= j < t.len() && t[j] == s[i];
    assert(prec_le(t[j], rt));
    let j2 = choose|j: int| 0 <= j < t.len() && same_knowledge(#[trigger] t[j], rt);
    lemma_has(t, j2); assert(has(s, t[j2]));
    let i2 = choose|i: int| 0 <= i < s.len() && s[i] == t[j2];
    assert(prec_le(s[i2], rs));
    assert(in_ids(ini, ss, rs.id) && in_ids(ini, ss, rt.id));
    assert(prec_le(rs, rt)) by { lemma_rank_props(s[i].incarnation, s[i].state, rs.incarnation, rs.state); }
    assert(prec_le(rt, rs)) by { lemma_rank_props(t[j2].incarnation, t[j2].state, rt.incarnation, rt.state); }
    lemma_prec_antisym(rs, rt, ini, ss);
}

// L C01.idem: re-applying something already known changes nothing  [C01.idem]
proof fn lemma_c01_idempotent<T: Identity>(m: Member<T>)
    ensures apply_one(m, m, true).0 == m && !apply_one(m, m, true).1.apply_successful // [C01.idem]
{
}

// L C01.exchange: after a two-way exchange both sides hold the same knowledge about a third-party address  [C01.exchange]
proof fn lemma_c01_exchange<T: Identity>(a: Option<Member<T>>, b: Option<Member<T>>)
    requires
        a.is_some() || b.is_some(),
        a.is_some() && b.is_some() ==> win_order(a, seq![b.unwrap()]),
    ensures ({
        // A learns B's record (if any), B learns A's record (if any)
        let a2 = match b { Some(y) => join1(a, y), None => a };
        let b2 = match a { Some(x) => join1(b, x), None => b };
        a2.is_some() && b2.is_some() && same_knowledge(a2.unwrap(), b2.unwrap()) // [C01.exchange]
    })
{
    if a.is_some() && b.is_some() {
        let x = a.unwrap();
        let y = b.unwrap();
        let ini = a; let ss = seq![y];
        assert(in_ids(ini, ss, x.id));
        assert(in_ids(ini, ss, y.id)) by { assert(seq![y][0].id == y.id); }
        lemma_join_max(x, y, ini, ss);
        lemma_join_max(y, x, ini, ss);
        let r1 = apply_one(x, y, true).0;
        let r2 = apply_one(y, x, true).0;
        assert(in_ids(ini, ss, r1.id) && in_ids(ini, ss, r2.id));
        // each result is one of the two inputs (as knowledge), and an upper bound of both
        assert(prec_le(r1, r2)) by { lemma_rank_props(r1.incarnation, r1.state, y.incarnation, y.state); lemma_rank_props(r1.incarnation, r1.state, x.incarnation, x.state); }
        assert(prec_le(r2, r1)) by { lemma_rank_props(r2.incarnation, r2.state, y.incarnation, y.state); lemma_rank_props(r2.incarnation, r2.state, x.incarnation, x.state); }
        lemma_prec_antisym(r1, r2, ini, ss);
    }
}

// ---------------------------------------------------------------------------------------------
// Link to the real code: Foca::apply_many's postcondition [C01.many] says that, for every third-party address `a`, the
// table record is fold_addr(record before, updates consumed, a).  fold_addr is fold_join over the updates about `a`.
// ---------------------------------------------------------------------------------------------

// the updates of `s` that are about address `a`, in order
spec fn about<T: Identity>(s: Seq<Member<T>>, a: T::Addr) -> Seq<Member<T>>
    decreases s.len()
{
    if s.len() == 0 { Seq::empty() }
    else {
        let r = about(s.drop_last(), a);
        if s.last().id.addr_of() == a { r.push(s.last()) } else { r }
    }
}

proof fn lemma_fold_addr_is_fold_join<T: Identity>(init: Option<Member<T>>, s: Seq<Member<T>>, a: T::Addr)
    ensures fold_addr(init, s, a) == fold_join(init, about(s, a))
    decreases s.len()
{
    if s.len() > 0 {
        lemma_fold_addr_is_fold_join(init, s.drop_last(), a);
        if s.last().id.addr_of() == a {
            let r = about(s.drop_last(), a);
            assert(r.push(s.last()).drop_last() =~= r);
        }
    }
}

proof fn lemma_about_members<T: Identity>(s: Seq<Member<T>>, a: T::Addr)
    ensures forall|x: Member<T>| #[trigger] has(about(s, a), x) == (has(s, x) && x.id.addr_of() == a)
    decreases s.len()
{
    if s.len() == 0 {
    } else {
        let p = s.drop_last();
        lemma_about_members(p, a);
        let r = about(p, a);
        let f = about(s, a);
        assert forall|x: Member<T>| #[trigger] has(f, x) == (has(s, x) && x.id.addr_of() == a) by {
            if has(f, x) {
                let i = choose|i: int| 0 <= i < f.len() && f[i] == x;
                if i < r.len() {
                    assert(r[i] == x); lemma_has(r, i);
                    assert(has(p, x));
                    let j = choose|j: int| 0 <= j < p.len() && p[j] == x;
                    assert(s[j] == x);
                } else {
                    assert(s[s.len() - 1] == x);
                }
            }
            if has(s, x) && x.id.addr_of() == a {
                let j = choose|j: int| 0 <= j < s.len() && s[j] == x;
                if j < p.len() {
                    assert(p[j] == x); lemma_has(p, j);
                    assert(has(r, x));
                    let i = choose|i: int| 0 <= i < r.len() && r[i] == x;
                    assert(f[i] == x);
                } else {
                    assert(f[f.len() - 1] == x);
                }
            }
        }
    }
}

// a fold that starts from a known record is the fold over that record followed by the updates
proof fn lemma_fold_init<T: Identity>(m: Member<T>, s: Seq<Member<T>>)
    ensures fold_join(Some(m), s) == fold_join(None, seq![m] + s)
    decreases s.len()
{
    let t = seq![m] + s;
    if s.len() == 0 {
        assert(t =~= seq![m]);
        assert(seq![m].drop_last() =~= Seq::<Member<T>>::empty());
        assert(fold_join(None::<Member<T>>, seq![m].drop_last()) == None::<Member<T>>);
    } else {
        lemma_fold_init(m, s.drop_last());
        assert(t.drop_last() =~= seq![m] + s.drop_last());
        assert(t.last() == s.last());
    }
}

proof fn lemma_about_win_order<T: Identity>(s: Seq<Member<T>>, a: T::Addr)
    requires win_order(None, s)
    ensures win_order(None, about(s, a))
{
    let sa = about(s, a);
    lemma_about_members(s, a);
    assert forall|id: T| in_ids(None::<Member<T>>, sa, id) implies in_ids(None::<Member<T>>, s, id) by {
        let i = choose|i: int| 0 <= i < sa.len() && (#[trigger] sa[i]).id == id;
        lemma_has(sa, i);
        assert(has(s, sa[i]));
        let j = choose|j: int| 0 <= j < s.len() && s[j] == sa[i];
        assert(s[j].id == id);
    }
}

// L C01.order over the table: starting from an empty table, two deliveries of the same updates (any order, any multiplicity)
// leave the same knowledge about every address some update mentions - stated over fold_addr, i.e. over what
// Foca::apply_many is proved to compute  [C01.order]
proof fn lemma_c01_table_order_independent<T: Identity>(s: Seq<Member<T>>, t: Seq<Member<T>>, a: T::Addr)
    requires
        same_elems(s, t),
        exists|x: Member<T>| has(s, x) && x.id.addr_of() == a,
        win_order(None, s),
    ensures
        fold_addr(None, s, a).is_some() && fold_addr(None, t, a).is_some(),
        same_knowledge(fold_addr(None, s, a).unwrap(), fold_addr(None, t, a).unwrap()), // [C01.order]
{
    let sa = about(s, a);
    let ta = about(t, a);
    lemma_about_members(s, a);
    lemma_about_members(t, a);
    lemma_fold_addr_is_fold_join(None, s, a);
    lemma_fold_addr_is_fold_join(None, t, a);
    let x0 = choose|x: Member<T>| has(s, x) && x.id.addr_of() == a;
    assert(has(sa, x0));
    assert(sa.len() > 0);
    assert(same_elems(sa, ta)) by {
        assert forall|x: Member<T>| #[trigger] has(sa, x) == has(ta, x) by { assert(has(s, x) == has(t, x)); }
    }
    lemma_about_win_order(s, a);
    lemma_c01_order_independent(sa, ta);
    lemma_fold_max(None, sa);
    assert(has(ta, x0));
    assert(ta.len() > 0);
    lemma_about_win_order_t(s, t, a);
    lemma_fold_max(None, ta);
}

proof fn lemma_about_win_order_t<T: Identity>(s: Seq<Member<T>>, t: Seq<Member<T>>, a: T::Addr)
    requires same_elems(s, t), win_order(None, s)
    ensures win_order(None, about(t, a))
{
    assert forall|id: T| in_ids(None::<Member<T>>, t, id) implies in_ids(None::<Member<T>>, s, id) by {
        let j = choose|j: int| 0 <= j < t.len() && (#[trigger] t[j]).id == id;
        lemma_has(t, j);
        assert(has(s, t[j]));
        let i = choose|i: int| 0 <= i < s.len() && s[i] == t[j];
        assert(s[i].id == id);
    }
    assert(win_order(None::<Member<T>>, t));
    lemma_about_win_order(t, a);
}

proof fn lemma_has_cons<T>(m: Member<T>, s: Seq<Member<T>>)
    ensures forall|x: Member<T>| #[trigger] has(seq![m] + s, x) == (x == m || has(s, x))
{
    let t = seq![m] + s;
    assert forall|x: Member<T>| #[trigger] has(t, x) == (x == m || has(s, x)) by {
        if has(t, x) {
            let j = choose|j: int| 0 <= j < t.len() && t[j] == x;
            if j > 0 { assert(s[j - 1] == x); }
        }
        if x == m { assert(t[0] == x); }
        if has(s, x) {
            let j = choose|j: int| 0 <= j < s.len() && s[j] == x;
            assert(t[j + 1] == x);
        }
    }
}

// ... and from any table: whatever record `m` an instance holds for address `a`, two deliveries of the same updates leave the
// same knowledge about `a`  [C01.order]
proof fn lemma_c01_table_order_independent_from<T: Identity>(m: Member<T>, s: Seq<Member<T>>, t: Seq<Member<T>>, a: T::Addr)
    requires
        same_elems(s, t),
        win_order(Some(m), s),
    ensures
        fold_addr(Some(m), s, a).is_some() && fold_addr(Some(m), t, a).is_some(),
        same_knowledge(fold_addr(Some(m), s, a).unwrap(), fold_addr(Some(m), t, a).unwrap()), // [C01.order]
{
    let sa = about(s, a);
    let ta = about(t, a);
    lemma_about_members(s, a);
    lemma_about_members(t, a);
    lemma_fold_addr_is_fold_join(Some(m), s, a);
    lemma_fold_addr_is_fold_join(Some(m), t, a);
    lemma_fold_init(m, sa);
    lemma_fold_init(m, ta);
    let s2 = seq![m] + sa;
    let t2 = seq![m] + ta;
    lemma_has_cons(m, sa);
    lemma_has_cons(m, ta);
    assert(same_elems(s2, t2)) by {
        assert forall|x: Member<T>| #[trigger] has(s2, x) == has(t2, x) by { assert(has(s, x) == has(t, x)); }
    }
    assert forall|id: T| in_ids(None::<Member<T>>, s2, id) implies in_ids(Some(m), s, id) by {
        let i = choose|i: int| 0 <= i < s2.len() && (#[trigger] s2[i]).id == id;
        lemma_has(s2, i);
        if s2[i] != m {
            assert(has(sa, s2[i]));
            assert(has(s, s2[i]));
            let j = choose|j: int| 0 <= j < s.len() && s[j] == s2[i];
            assert(s[j].id == id);
        }
    }
    assert(win_order(None::<Member<T>>, s2));
    lemma_c01_order_independent(s2, t2);
    lemma_fold_max(None, s2);
    assert(has(t2, m));
    assert forall|id: T| in_ids(None::<Member<T>>, t2, id) implies in_ids(None::<Member<T>>, s2, id) by {
        let j = choose|j: int| 0 <= j < t2.len() && (#[trigger] t2[j]).id == id;
        lemma_has(t2, j);
        assert(has(s2, t2[j]));
        let i = choose|i: int| 0 <= i < s2.len() && s2[i] == t2[j];
        assert(s2[i].id == id);
    }
    assert(win_order(None::<Member<T>>, t2));
    lemma_fold_max(None, t2);
}
