// ---- trusted prelude: alloc::collections::BinaryHeap as a multiset with a max-pop (A-prelude) ----
use alloc::collections::BinaryHeap;

#[verifier::external_type_specification]
#[verifier::external_body]
#[verifier::accept_recursive_types(T)]
#[verifier::reject_recursive_types(A)]
pub struct ExBinaryHeap<T, A: Allocator>(BinaryHeap<T, A>);

pub uninterp spec fn heap_view<T, A: Allocator>(h: &BinaryHeap<T, A>) -> Multiset<T>;

pub assume_specification<T>[ BinaryHeap::<T>::new ]() -> (r: BinaryHeap<T>)
    ensures heap_view(&r) == Multiset::<T>::empty();

pub assume_specification<T, A: Allocator>[ BinaryHeap::<T, A>::len ](h: &BinaryHeap<T, A>) -> (r: usize)
    ensures r == heap_view(h).len();

pub assume_specification<T, A: Allocator>[ BinaryHeap::<T, A>::is_empty ](h: &BinaryHeap<T, A>) -> (r: bool)
    ensures r == (heap_view(h).len() == 0);

pub assume_specification<T: Ord, A: Allocator>[ BinaryHeap::<T, A>::push ](h: &mut BinaryHeap<T, A>, item: T)
    ensures heap_view(final(h)) == heap_view(old(h)).insert(item);

// pop returns a maximum w.r.t. the element type's own `Ord` (std's documented contract for a max-heap)
pub assume_specification<T: Ord, A: Allocator>[ BinaryHeap::<T, A>::pop ](h: &mut BinaryHeap<T, A>) -> (r: Option<T>)
    ensures match r {
        Some(x) => heap_view(old(h)).count(x) > 0 && heap_view(final(h)) == heap_view(old(h)).remove(x)
            && (T::obeys_cmp_spec() ==> forall|y: T| heap_view(old(h)).count(y) > 0 ==> #[trigger] y.cmp_spec(&x) != Ordering::Greater),
        None => heap_view(old(h)).len() == 0 && heap_view(final(h)) == heap_view(old(h)),
    };

pub assume_specification<T: Ord, A: Allocator>[ BinaryHeap::<T, A>::append ](h: &mut BinaryHeap<T, A>, other: &mut BinaryHeap<T, A>)
    ensures heap_view(final(h)) == heap_view(old(h)).add(heap_view(old(other))), heap_view(final(other)) == Multiset::<T>::empty();

// retain keeps exactly the elements for which the predicate answered true (each occurrence is asked once)
pub assume_specification<T: Ord, A: Allocator, F: FnMut(&T) -> bool>[ BinaryHeap::<T, A>::retain ](h: &mut BinaryHeap<T, A>, f: F)
    requires forall|x: &T| f.requires((x,)),
    ensures forall|x: T| #![trigger heap_view(final(h)).count(x)]
        heap_view(final(h)).count(x) <= heap_view(old(h)).count(x)
        && (heap_view(final(h)).count(x) < heap_view(old(h)).count(x) ==> f.ensures((&x,), false))
        && (heap_view(final(h)).count(x) > 0 ==> f.ensures((&x,), true));

pub assume_specification<T>[ <BinaryHeap<T> as Default>::default ]() -> (r: BinaryHeap<T>)
    ensures heap_view(&r) == Multiset::<T>::empty();
