    // F3 (C06): a legal set_config that changes max_packet_size makes every
    // later send panic in builds with debug assertions.
    #[test]
    fn verif_f3_set_config_packet_size_no_panic() {
        let mut foca = Foca::new(ID::new(1), config(), rng(), codec());
        let mut runtime = AccumulatingRuntime::new();
        let mut c = config();
        c.max_packet_size = core::num::NonZeroUsize::new(c.max_packet_size.get() - 400).unwrap();
        assert_eq!(Ok(()), foca.set_config(c));
        assert_eq!(Ok(()), foca.announce(ID::new(2), &mut runtime));
        let mut c = config();
        c.max_packet_size = core::num::NonZeroUsize::new(c.max_packet_size.get() + 400).unwrap();
        assert_eq!(Ok(()), foca.set_config(c));
        assert_eq!(Ok(()), foca.announce(ID::new(2), &mut runtime));
    }
