#!/bin/bash
# usage: run_seeded.sh [mutant-dir ...]   (default: all of seeded/*)
# For each seeded change: scratch copy of /repo's working tree + patch, run ./check <property> against it (REPO=<scratch>), report.
cd /verif
ms=("$@"); [ ${#ms[@]} -eq 0 ] && ms=(seeded/*/)
one() {
  m=${1%/}; id=$(basename $m); prop=$(python3 -c "import json;print(json.load(open('$m/meta.json'))['property'])")
  d=$(mktemp -d /tmp/verif_seedrun.XXXXXX)
  rsync -a --exclude target --exclude .git /repo/ "$d"/
  if ! (cd "$d" && patch -p1 -s < /verif/$m/patch.diff >/dev/null 2>&1); then echo "$id $prop PATCH-FAILED"; rm -rf "$d"; return; fi
  out=$(REPO="$d" ./check $prop 2>&1); rc=$?
  rm -rf "$d"
  echo "$id $prop rc=$rc $(echo "$out" | grep -m1 'VIOLATION\|UNDECIDED\|^OK' | cut -c1-220)"
}
export -f one
printf '%s\n' "${ms[@]}" | xargs -P 4 -I{} bash -c 'one {}'
