// ---- trusted prelude: assumed specifications for std functions vstd lacks ----
pub assume_specification<T> [ <[T]>::swap ] (s: &mut [T], a: usize, b: usize)
    requires a < old(s)@.len(), b < old(s)@.len(),
    ensures final(s)@ == old(s)@.update(a as int, old(s)@[b as int]).update(b as int, old(s)@[a as int]);

pub assume_specification<T, F: FnOnce() -> Option<T>>[ Option::<T>::or_else ](o: Option<T>, f: F) -> (r: Option<T>)
    requires o.is_none() ==> f.requires(()),
    ensures o.is_some() ==> r == o, o.is_none() ==> f.ensures((), r);

pub assume_specification<T, F: FnOnce(T) -> bool>[ Option::<T>::is_some_and ](opt: Option<T>, f: F) -> (r: bool)
    requires opt.is_some() ==> f.requires((opt.unwrap(),)),
    ensures opt.is_none() ==> !r, opt.is_some() ==> f.ensures((opt.unwrap(),), r);

// N4: `debug_assert!(c)` / `debug_assert_eq!(a, b)` become calls to this function: a debug assertion is a proof
// obligation ("builds with or without debug assertions", C06)
fn debug_assert_(cond: bool)
    requires cond, // [C06.dbg]
{
}

pub assume_specification [core::cmp::Ordering::is_eq] (o: Ordering) -> (r: bool)
    ensures r == (o == Ordering::Equal);

pub assume_specification<F: FnOnce() -> Ordering> [core::cmp::Ordering::then_with] (o: Ordering, f: F) -> (r: Ordering)
    requires o == Ordering::Equal ==> f.requires(()),
    ensures o != Ordering::Equal ==> r == o, o == Ordering::Equal ==> f.ensures((), r);

// capacity is a ghost attribute of a Vec value; only what the debug assertions in send_message/handle_data need is assumed
pub uninterp spec fn vec_cap<T, A: Allocator>(v: &Vec<T, A>) -> usize;

pub assume_specification<T, A: Allocator>[ Vec::<T, A>::capacity ](v: &Vec<T, A>) -> (r: usize)
    ensures r == vec_cap(v);

// mem::take leaves `Default::default()` behind; for a Vec that is an empty vector that has not allocated
pub uninterp spec fn default_val<T>() -> T;

pub assume_specification<T: Default>[ core::mem::take::<T> ](dest: &mut T) -> (r: T)
    ensures r == *old(dest), *final(dest) == default_val::<T>();

#[verifier::external_body]
proof fn axiom_default_vec<T>()
    ensures default_val::<Vec<T>>()@.len() == 0, vec_cap(&default_val::<Vec<T>>()) == 0,
{
}

pub assume_specification<T>[ core::mem::replace::<T> ](dest: &mut T, src: T) -> (r: T)
    ensures r == *old(dest), *final(dest) == src;

pub assume_specification<T: Clone>[ <[T]>::to_vec ](s: &[T]) -> (r: Vec<T>)
    ensures r@.len() == s@.len(), forall|i: int| 0 <= i < s@.len() ==> call_ensures(T::clone, (&s@[i],), #[trigger] r@[i]);

// bytes are Copy: cloning a u8 yields the same u8
#[verifier::external_body]
proof fn axiom_clone_u8()
    ensures forall|a: u8, b: u8| call_ensures(u8::clone, (&a,), b) ==> a == b,
{
}

// Vec::drain(..) as used by handle_data: the iterator type is opaque; draining the full range leaves the vector empty
#[verifier::reject_recursive_types(A)]
#[verifier::reject_recursive_types(T)]
#[verifier::external_type_specification]
#[verifier::external_body]
pub struct ExDrain<'a, T: 'a, A: Allocator>(alloc::vec::Drain<'a, T, A>);

// (A-iter) the Drain of the full range yields exactly the vector's former contents, in order, and behaves as a finite sequence;
// the only call site (handle_data) drains `..`; for any other range type nothing is promised about what is yielded.
pub uninterp spec fn range_is_full<R>(r: R) -> bool;
pub broadcast axiom fn axiom_range_full(r: core::ops::RangeFull)
    ensures #[trigger] range_is_full(r);
pub assume_specification<'a, T, A: Allocator, R: core::ops::RangeBounds<usize>>[ Vec::<T, A>::drain ](v: &'a mut Vec<T, A>, r: R) -> (d: alloc::vec::Drain<'a, T, A>)
    ensures
        d.obeys_prophetic_iter_laws(),
        range_is_full(r) ==> d.remaining() == old(v)@ && final(v)@.len() == 0;
