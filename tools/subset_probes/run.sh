#!/bin/bash
# usage: run.sh  -- prints, per probed construct, whether Verus is precise on it (OK) or not (IMPRECISE)
cd "$(dirname "$0")"
verus probes.rs --output-json --time 2>/dev/null > /tmp/subset_probes.json
python3 - <<'PY'
import json
d=json.load(open('/tmp/subset_probes.json'))
for m in d['times-ms']['smt']['smt-run-module-times']:
    for f in m.get('function-breakdown',[]):
        n=f['function'].split('::')[-1]
        if n.startswith('p_'): print('%-28s %s'%(n, 'OK' if f['success'] else 'IMPRECISE'))
PY
rm -f /tmp/subset_probes.json
