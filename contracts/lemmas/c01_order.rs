// ---------------------------------------------------------------------------------------------
// L-C01: the per-address join `apply_one` (the spec function in the contracts of apply_existing_if / apply /
// apply_update) is a maximum w.r.t. the SWIM precedence order, hence folding it over a collection of updates
// gives a result that depends only on the *set* of updates: not on order, not on multiplicity (up to the
// incarnation remembered next to Down).  Assumption A-win-order: on the identities involved `wins` is a strict
// total order (asymmetric, total on distinct identities, transitive).
// ---------------------------------------------------------------------------------------------

// what an instance knows about one address after learning `u` (None: address unknown so far)
spec fn join1<T: Identity>(m: Option<Member<T>>, u: Member<T>) -> Option<Member<T>> {
    match m {
        None => Some(u),                       // registration (Members::apply, O C01.register)
        Some(m) => Some(apply_one(m, u, true).0), // O C01.apply
    }
}

spec fn fold_join<T: Identity>(init: Option<Member<T>>, s: Seq<Member<T>>) -> Option<Member<T>>
    decreases s.len()
{
    if s.len() == 0 { init } else { join1(fold_join(init, s.drop_last()), s.last()) }
}

// the SWIM precedence order on records of one address: the conflict winner first, then Down > higher incarnation > Suspect over Alive
spec fn prec_le<T: Identity>(u: Member<T>, v: Member<T>) -> bool {
    if u.id == v.id { rank(u.incarnation, u.state) <= rank(v.incarnation, v.state) } else { v.id.wins(&u.id) }
}

// same identity, same state, same incarnation unless Down ("only the incarnation remembered next to Down may differ")
spec fn same_knowledge<T: Identity>(u: Member<T>, v: Member<T>) -> bool {
    u.id == v.id && u.state == v.state && (u.state != State::Down ==> u.incarnation == v.incarnation)
}

// the identities a collection of updates talks about
spec fn in_ids<T: Identity>(init: Option<Member<T>>, s: Seq<Member<T>>, id: T) -> bool {
    (init.is_some() && init.unwrap().id == id) || exists|i: int| 0 <= i < s.len() && (#[trigger] s[i]).id == id
}

// A-win-order on those identities
spec fn win_order<T: Identity>(ini: Option<Member<T>>, ss: Seq<Member<T>>) -> bool {
    &&& forall|a: T, b: T| in_ids(ini, ss, a) && in_ids(ini, ss, b) && a != b ==> (#[trigger] a.wins(&b) != b.wins(&a))
    &&& forall|a: T, b: T, c: T| in_ids(ini, ss, a) && in_ids(ini, ss, b) && in_ids(ini, ss, c) && #[trigger] a.wins(&b) && #[trigger] b.wins(&c) ==> a.wins(&c)
}

proof fn lemma_rank_props(i: u16, s: State, j: u16, t: State)
    ensures rank(i, s) == rank(j, t) ==> s == t && (s != State::Down ==> i == j)
{
}

proof fn lemma_prec_antisym<T: Identity>(u: Member<T>, v: Member<T>, ini: Option<Member<T>>, ss: Seq<Member<T>>)
    requires win_order(ini, ss), in_ids(ini, ss, u.id), in_ids(ini, ss, v.id), prec_le(u, v), prec_le(v, u)
    ensures same_knowledge(u, v)
{
    if u.id == v.id { lemma_rank_props(u.incarnation, u.state, v.incarnation, v.state); }
}

// one join step yields an upper bound of both arguments that is (knowledge-)equal to one of them  [C01.order]
proof fn lemma_join_max<T: Identity>(m: Member<T>, u: Member<T>, ini: Option<Member<T>>, ss: Seq<Member<T>>)
    requires win_order(ini, ss), in_ids(ini, ss, m.id), in_ids(ini, ss, u.id)
    ensures ({
        let r = apply_one(m, u, true).0;
        prec_le(m, r) && prec_le(u, r) && (r == m || r == u || (r.id == u.id && r.incarnation == u.incarnation && r.state == u.state))
    })
{
}

proof fn lemma_prec_trans<T: Identity>(a: Member<T>, b: Member<T>, c: Member<T>, ini: Option<Member<T>>, ss: Seq<Member<T>>)
    requires win_order(ini, ss), in_ids(ini, ss, a.id), in_ids(ini, ss, b.id), in_ids(ini, ss, c.id), prec_le(a, b), prec_le(b, c)
    ensures prec_le(a, c)
{
    if a.id == b.id {
    } else if b.id == c.id {
    } else if a.id == c.id {
        // b wins a, c wins b, and c == a as identities: impossible in a strict order
        assert(b.id.wins(&a.id) && c.id.wins(&b.id));
        assert(a.id.wins(&b.id));
    } else {
        assert(c.id.wins(&b.id) && b.id.wins(&a.id));
    }
}

// the fold is an upper bound of everything seen and equals (as knowledge) something seen  [C01.order]
proof fn lemma_fold_max<T: Identity>(init: Option<Member<T>>, s: Seq<Member<T>>)
    requires win_order(init, s), init.is_some() || s.len() > 0
    ensures ({
        let r = fold_join(init, s).unwrap();
        &&& fold_join(init, s).is_some() && in_ids(init, s, r.id)
        &&& (init.is_some() ==> prec_le(init.unwrap(), r))
        &&& forall|i: int| 0 <= i < s.len() ==> prec_le(#[trigger] s[i], r)
        &&& ((init.is_some() && same_knowledge(init.unwrap(), r)) || exists|i: int| 0 <= i < s.len() && same_knowledge(#[trigger] s[i], r))
    })
    decreases s.len()
{
    let ini = init; let ss = s;
    if s.len() == 0 {
    } else {
        let p = s.drop_last();
        let u = s.last();
        assert(in_ids(ini, ss, u.id)) by { assert(s[s.len() - 1].id == u.id); }
        assert forall|id: T| in_ids(init, p, id) implies in_ids(ini, ss, id) by {
            if !(init.is_some() && init.unwrap().id == id) {
                let i = choose|i: int| 0 <= i < p.len() && (#[trigger] p[i]).id == id;
                assert(s[i].id == id);
            }
        }
        assert(win_order(init, p));
        if init.is_none() && p.len() == 0 {
            assert(fold_join(init, p).is_none());
            assert(fold_join(init, s) == Some(u));
            assert(same_knowledge(s[s.len() - 1], u));
        } else {
            lemma_fold_max(init, p);
            let m = fold_join(init, p).unwrap();
            let r = apply_one(m, u, true).0;
            assert(fold_join(init, s) == Some(r));
            lemma_join_max(m, u, ini, ss);
            if init.is_some() { lemma_prec_trans(init.unwrap(), m, r, ini, ss); }
            assert forall|i: int| 0 <= i < s.len() implies prec_le(#[trigger] s[i], r) by {
                if i < p.len() {
                    assert(p[i] == s[i]);
                    assert(in_ids(ini, ss, s[i].id));
                    lemma_prec_trans(s[i], m, r, ini, ss);
                }
            }
            if r == m {
                if !(init.is_some() && same_knowledge(init.unwrap(), m)) {
                    let i = choose|i: int| 0 <= i < p.len() && same_knowledge(#[trigger] p[i], m);
                    assert(p[i] == s[i]);
                }
            } else {
                assert(same_knowledge(s[s.len() - 1], r));
            }
        }
    }
}

// L C01.order: two collections containing the same updates (any order, any multiplicity) give the same knowledge  [C01.order]
proof fn lemma_c01_order_independent<T: Identity>(s: Seq<Member<T>>, t: Seq<Member<T>>)
    requires
        s.len() > 0,
        forall|i: int| 0 <= i < s.len() ==> exists|j: int| 0 <= j < t.len() && t[j] == #[trigger] s[i],
        forall|j: int| 0 <= j < t.len() ==> exists|i: int| 0 <= i < s.len() && s[i] == #[trigger] t[j],
        win_order(None, s),
    ensures
        same_knowledge(fold_join(None, s).unwrap(), fold_join(None, t).unwrap()), // [C01.order]
{
    let ini = None::<Member<T>>; let ss = s;
    assert(t.len() > 0) by { let j = choose|j: int| 0 <= j < t.len() && t[j] == s[0]; }
    assert forall|id: T| in_ids(None::<Member<T>>, t, id) implies in_ids(ini, ss, id) by {
        let j = choose|j: int| 0 <= j < t.len() && (#[trigger] t[j]).id == id;
        let i = choose|i: int| 0 <= i < s.len() && s[i] == t[j];
        assert(s[i].id == id);
    }
    assert(win_order(None::<Member<T>>, t));
    lemma_fold_max(None, s);
    lemma_fold_max(None, t);
    let rs = fold_join(None, s).unwrap();
    let rt = fold_join(None, t).unwrap();
    // rs is knowledge-equal to some s[i] = t[j] <= rt, and symmetrically
    let i = choose|i: int| 0 <= i < s.len() && same_knowledge(#[trigger] s[i], rs);
    let j = choose|j: int| 0 <= j < t.len() && t[j] == s[i];
    assert(prec_le(t[j], rt));
    let j2 = choose|j: int| 0 <= j < t.len() && same_knowledge(#[trigger] t[j], rt);
    let i2 = choose|i: int| 0 <= i < s.len() && s[i] == t[j2];
    assert(prec_le(s[i2], rs));
    assert(in_ids(ini, ss, rs.id) && in_ids(ini, ss, rt.id));
    assert(prec_le(rs, rt)) by { lemma_rank_props(s[i].incarnation, s[i].state, rs.incarnation, rs.state); }
    assert(prec_le(rt, rs)) by { lemma_rank_props(t[j2].incarnation, t[j2].state, rt.incarnation, rt.state); }
    lemma_prec_antisym(rs, rt, ini, ss);
}

// L C01.idem: re-applying something already known changes nothing  [C01.idem]
proof fn lemma_c01_idempotent<T: Identity>(m: Member<T>)
    ensures apply_one(m, m, true).0 == m && !apply_one(m, m, true).1.apply_successful // [C01.idem]
{
}

// L C01.exchange: after a two-way exchange both sides hold the same knowledge about a third-party address  [C01.exchange]
proof fn lemma_c01_exchange<T: Identity>(a: Option<Member<T>>, b: Option<Member<T>>)
    requires
        a.is_some() || b.is_some(),
        a.is_some() && b.is_some() ==> win_order(a, seq![b.unwrap()]),
    ensures ({
        // A learns B's record (if any), B learns A's record (if any)
        let a2 = match b { Some(y) => join1(a, y), None => a };
        let b2 = match a { Some(x) => join1(b, x), None => b };
        a2.is_some() && b2.is_some() && same_knowledge(a2.unwrap(), b2.unwrap()) // [C01.exchange]
    })
{
    if a.is_some() && b.is_some() {
        let x = a.unwrap();
        let y = b.unwrap();
        let ini = a; let ss = seq![y];
        assert(in_ids(ini, ss, x.id));
        assert(in_ids(ini, ss, y.id)) by { assert(seq![y][0].id == y.id); }
        lemma_join_max(x, y, ini, ss);
        lemma_join_max(y, x, ini, ss);
        let r1 = apply_one(x, y, true).0;
        let r2 = apply_one(y, x, true).0;
        assert(in_ids(ini, ss, r1.id) && in_ids(ini, ss, r2.id));
        // each result is one of the two inputs (as knowledge), and an upper bound of both
        assert(prec_le(r1, r2)) by { lemma_rank_props(r1.incarnation, r1.state, y.incarnation, y.state); lemma_rank_props(r1.incarnation, r1.state, x.incarnation, x.state); }
        assert(prec_le(r2, r1)) by { lemma_rank_props(r2.incarnation, r2.state, y.incarnation, y.state); lemma_rank_props(r2.incarnation, r2.state, x.incarnation, x.state); }
        lemma_prec_antisym(r1, r2, ini, ss);
    }
}
