#!/bin/bash
# usage: confirm_seeded.sh <seeded-dir>   (contains patch.diff demo.rs demo_target.txt)
# Confirms in a scratch worktree of /repo HEAD: (a) suite passes with the patch, (b) demo fails with it, (c) demo passes without it.
set -u
d=$(readlink -f "$1")
wt=$(mktemp -d /tmp/verif_seed.XXXXXX); rmdir "$wt"
git -C /repo worktree add -q --detach "$wt" HEAD || exit 2
trap 'git -C /repo worktree remove --force "$wt" 2>/dev/null; rm -rf "$wt"' EXIT
tgt=$(cat "$d/demo_target.txt" 2>/dev/null | head -1 | tr -d '[:space:]'); tgt=${tgt:-src/lib.rs}
feat=$(sed -n 2p "$d/demo_target.txt" 2>/dev/null | grep -oE 'features: *(postcard-codec|bincode-codec|std|serde)' | awk '{print $2}')
FEAT=""; [ -n "$feat" ] && FEAT="--features $feat"
inject() { python3 - "$wt/$tgt" "$d/demo.rs" <<'PY'
import sys
p,t=sys.argv[1],sys.argv[2]
s=open(p).read(); i=s.rstrip().rfind('}')
open(p,'w').write(s[:i]+"\n"+open(t).read()+"\n}\n")
PY
}
cd "$wt"
export CARGO_TARGET_DIR="$wt/target" CARGO_NET_OFFLINE=true
# (c) demo without patch
inject
cargo test --offline -j 6 $FEAT --lib seeded > "$wt/c.log" 2>&1; c=$?
git checkout -q -- .
# (a) suite with patch
git apply "$d/patch.diff" || { echo "patch does not apply"; exit 2; }
cargo test --offline -j 6 --workspace > "$wt/a.log" 2>&1; a=$?
apass=$(grep -h "test result" "$wt/a.log" | awk '{s+=$4} END{print s}')
# (b) demo with patch
inject
cargo test --offline -j 6 $FEAT --lib seeded > "$wt/b.log" 2>&1; b=$?
bfail=$(grep -h "test result" "$wt/b.log" | head -1)
cpass=$(grep -h "test result" "$wt/c.log" | head -1)
ok=false; [ $a -eq 0 ] && [ "$apass" = "79" ] && [ $b -ne 0 ] && [ $c -eq 0 ] && ok=true
python3 - "$d" "$ok" "$apass" "$bfail" "$cpass" <<'PY'
import json,sys,os
d,ok,apass,bfail,cpass=sys.argv[1:6]
m={}
mp=os.path.join(d,'meta.json')
if os.path.exists(mp): m=json.load(open(mp))
m['confirmed']= ok=='true'
m['confirmation']={'suite_with_patch_passed':apass,'demo_with_patch':bfail,'demo_without_patch':cpass,
  'ran':'tools/confirm_seeded.sh: scratch worktree of /repo HEAD; cargo test --offline --workspace with patch; cargo test --lib seeded with and without patch'}
json.dump(m,open(mp,'w'),indent=1)
print(d, 'CONFIRMED' if m['confirmed'] else 'NOT-CONFIRMED', apass, '|', bfail, '|', cpass)
PY
