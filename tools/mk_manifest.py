#!/usr/bin/env python3
"""Regenerates MANIFEST.json from the table below (kept in one place so it is always valid)."""
import json, os
V = os.path.dirname(os.path.dirname(os.path.abspath(__file__)))
TB = ("Trusted: Verus 0.2026.09.13 + Z3; tools/extract.py normalisation rules N1-N10 (DESIGN.md 2.2); the hand-written prelude "
      "(contracts/prelude/*.rs: stand-ins for rand/bytes, assume_specifications for std functions vstd lacks, laws assumed of the user-supplied "
      "Identity/Codec/Runtime/BroadcastHandler); hoisted iterator expressions (external_body helpers h1..h7); termination of iterator loops. "
      "Every remaining assumption is listed per run in the evidence file (trusted_base, assumption_scan).")
CLAIMS = {
 'C01': ("Verus discharges, for all inputs and every list length: the precedence table (Member::can_change/change_state == the rank order over the whole u16 range), the whole-view join postcondition of Members::apply_existing_if / apply (apply_one: conflict winner supersedes whatever the states, Lost/FailedCondition leave the list untouched, Down final), registration of unknown addresses, and the routing of apply_update/apply_many (own identity never applied, own address only as Down).",
         "The per-call join is proved for all inputs; the order/multiplicity-independence consequence is proved as lemmas over the same spec function (lemmas unit) where present."),
 'C06': ("Verus discharges every side obligation (overflow/underflow, index and slice bounds, unwrap/expect, division by zero, callee preconditions incl. the bytes stand-ins' space requirements) and every debug assertion of every non-test function of lib.rs, member.rs, probe.rs, broadcast.rs, payload.rs and of the Runtime blanket impl, under the representation invariant Foca::inv which is proved established by the constructor and preserved by every public method.",
         "Not covered: allocation failure, panics inside user-supplied traits, termination of iterator loops, Config::new_lan/new_wan floating point (Kani harness where registered), the bodies of bytes/rand/alloc beyond the prelude specs; the 2^64 forwarded-ack counter bound is a stated precondition (A-count)."),
 'C07': ("Verus: send_message's single datagram satisfies the grammar wire_ok (header of (identity, incarnation, dst, message); 16-bit count + exactly that many whole members iff the kind piggybacks and >2 bytes are left; length-prefixed custom items only for kinds that carry them; never above max_packet_size), a Feed lists pairwise distinct active records other than the receiver (feed_ok), Broadcasts::fill/fill_with_len_prefix write only whole items that fit (fill_effect), the kind predicates equal their tables, and handle_custom_broadcasts accepts exactly parse_items.",
         "Under A-codec (stateless wire format). The send-grammar-is-accepted round trip lemma is not claimed unless listed in the evidence."),
 'C08': ("Verus: num_active == number of active records (Members::wf) preserved by every operation; ApplySummary mirrors what happened to the record (summary_mirrors); handle_apply_summary emits exactly Rename/MemberUp/MemberDown per the summary (summary_effects); Active only from Disconnected with >=1 active member, Idle only from Connected with none, Defunct/Rejoin only through own_death (rejoined/went_undead), all as exact trace postconditions; Connected ==> num_active>0 (Foca::inv) at every public call boundary.",
         "AccumulatingRuntime (three FIFO queues) is not under contract: the per-kind order claim for it is not decided here."),
 'C09': ("Verus: address uniqueness and 'own address only as Down' (own_down) are part of Foca::inv_core, preserved by every function; lookup is by address; identity replaced only when the stored identity does not win (apply_one) and reported as Rename; datagrams from own identity/address rejected before any change; payload of an inactive/superseded sender discarded (apply_update's boolean, handle_data inactive branch).", ""),
 'C10': ("Verus: handle_self_update's exact case table (Alive: nothing; Suspect: incarnation' = max+1 iff suspicion >= own, unchanged otherwise, rejoin-or-Defunct at MAX; Down: rejoin-or-Defunct), attempt_rejoin true iff renew() differs from and wins against the old identity, change_identity/reset zero the incarnation, bump the epoch and enqueue Down(previous); send_message's header carries (identity, incarnation) at send time; updates are enqueued verbatim (enqueued .. mem_bytes(update)).", ""),
 'C11': ("Verus: handle_timer(ChangeSuspectToDown) satisfies the complete case table t_timeout (stale token / unknown / superseded / other incarnation / already Down: no effect at all; otherwise Down at the suspicion's incarnation, summary effects, TurnUndead iff configured and applied), RemoveDown removes exactly that identity only if Down and does nothing else; Down never changes by change_state; RemoveDown scheduled exactly when a successful application leaves the member inactive.",
         "'No effect' for a cancelled timeout is stated for settled instances (Disconnected ==> no active members), which is what every epoch that can own such a timer satisfies."),
 'C12': ("Verus: Probe::* exact postconditions (evidence only from the probed member / an asked helper with the current number, counted once), handle_timer(SendIndirectProbe) t_indirect (requests only while probing, no evidence, target active; to <= num_indirect_probes distinct active members, never the target; each recorded), probe_random_member (Suspect + exactly one timeout iff the round failed and the member is active; one Ping to the member Members::next yields), and the relay table reply_ok in handle_data.", ""),
 'C13': ("Verus: token bumped exactly in reset/become_disconnected/become_undead (struct-update frames), become_connected arms exactly arm_effects, every recurring handler re-arms exactly once before acting (t_periodic, probe_random_member), stale-token and not-active timers change nothing (whole-state equality), set_config refuses timing changes/enabling with no change.",
         "The global 'exactly one outstanding timer' accounting lemma over histories is not claimed beyond these per-call clauses."),
 'C14': ("Verus: Members::next returns the first active record at/after the cursor else the first before it, reshuffles (any sequence of swaps) exactly when the cursor ran off the end, forces a reshuffle after a wrap, never returns a Down record; probe_random_member pings exactly that member, which by own_down is never the instance itself.",
         "the 2n-1 window consequence is a lemma over next's spec function (lemmas unit) where present in the evidence."),
 'C15': ("Verus: add_or_replace == enqueued (everything the key invalidates removed, one new entry at max_tx; Addr keys invalidate iff same address), fill == fill_effect (taken entries decremented and dropped at zero, others untouched, no omission of anything that still fits, Entry order precedence), only successful applications with do_broadcast enqueue, only piggybacking non-Feed kinds consume the update backlog.",
         "assumed BinaryHeap specs (multiset view, pop returns a maximum)."),
 'C16': ("Verus: add_broadcast (rejections without change; accepted key enqueued with the bytes verbatim), handle_custom_broadcasts (handler sees exactly parse_items(data), once each, in order, with the sender; anything else refused), fill_with_len_prefix framing, attachment gate (carries_custom && should_add), broadcast() (nothing when empty; only Broadcast datagrams to <= num_indirect_probes distinct active members; update backlog untouched).", ""),
 'C17': ("Verus: every rejection path of handle_data (oversize, header/member decode error, own identity/address, framing, not addressed), stale/not-active timers, reuse_down_identity(NotUndead), change_identity(SameIdentity), set_config(InvalidConfig), add_broadcast(DataTooBig/MalformedPacket) leaves the whole state equal (modulo the user codec's own state and the scratch decode buffer, which is proved cleared before use) and appends nothing to the trace.",
         "Determinism itself is argued (safe Rust, no ambient nondeterminism; functional postconditions), not proved as a two-run property."),
 'C18': ("Verus: per-call fan-out bounds (sent_to_active .. num_indirect_probes), the reply table maps every request kind to a kind that gets no reply (reply_ok), a TurnUndead from a Down-listed sender is answered only if the identity was renewed, attempt_rejoin only with a winning identity.",
         "Partial: cross-instance termination of gossip-induced chains is not decided."),
 'C19': ("Verus: all_foreign (no appended datagram goes to an identity with the own address) for every function that chooses a destination: gossip, announce_to_down, change_identity, attempt_rejoin, handle_self_update, leave_cluster, apply_many, broadcast, probe_random_member, handle_timer (all arms), handle_data replies; from own_down + choosers returning only active records.",
         "announce(dst) and relays to a peer-named target are exempt per the statement."),
}
NA = {
 'C02': 'multi-instance schedules with a timing assumption and a convergence bound: no per-call contract or data-structure invariant expresses it (DESIGN.md 6/8); ingredients proved under C09,C12,C13,C14',
 'C03': 'crash points x schedules of a cluster with a real-time bound: outside what function contracts decide (DESIGN.md 8); ingredients under C10,C11,C12,C14',
 'C04': 'fault position x schedule over a multi-instance run (DESIGN.md 8); the single-instance defect it relates to (F1) was found and fixed through C11',
 'C05': 'partition shapes x heal instants x schedules, convergence (DESIGN.md 8); per-instance reactions under C10,C17,C18,C01',
}
PENDING = {p: 'contracts for this property are not built yet in this revision (work in progress; DESIGN.md 6 has the plan)' for p in
           ['C20']}
def main():
    checks=[]
    for pid,(text,note) in sorted(CLAIMS.items()):
        checks.append(dict(property_id=pid, quick_cmd='./check %s --tier quick'%pid, thorough_cmd='./check %s --tier thorough'%pid,
            evidence_file='/verif/evidence/%s.json'%pid, replay_cmd_template='./check %s --replay {path}'%pid, engine='verus-contracts',
            level_claimed=dict(category='proof', text=text+(' '+note if note else ''), design_ref='DESIGN.md section 6 (%s)'%pid),
            level_note=TB, technique='contract-based deductive verification (Verus) of mechanically extracted real functions'))
    na=[dict(property_id=p, reason=r) for p,r in sorted({**NA, **{p:r for p,r in PENDING.items() if p not in CLAIMS}}.items())]
    m=dict(version=1, setup_cmd='true',
        hooks=dict(guard='caio_foca_verif', enable='none needed: checks read /repo/src directly (no hooks in /repo)', baseline_off_cmd='cd /repo && cargo test --workspace --no-fail-fast --offline', source_commits=[], add_only=True),
        engines=[dict(name='verus-contracts', path='/verif/check', serves_properties=sorted(CLAIMS), kind_free_text='tools/extract.py re-extracts the real functions from /repo/src on every run, splices contracts from contracts/*.rs.in, Verus discharges every obligation')],
        checks=checks, not_applicable=na,
        notes='fix: commits in /repo: 7c736be (C11), e591c9d (C19), 3a729f4 (C06), 4b96cd3 (C18); see known_findings.txt')
    json.dump(m, open(os.path.join(V,'MANIFEST.json'),'w'), indent=1)
main()
