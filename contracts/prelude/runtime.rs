// ---- trusted prelude: the user-supplied Runtime (src/runtime.rs) with a ghost effect trace ----
// The trace is not an assumption about runtimes: it *is* the sequence of callback invocations.
ghost enum Notif<T> { MemberUp(T), MemberDown(T), Rename(T, T), Active, Idle, Defunct, Rejoin(T) }

ghost enum Effect<T> {
    Notify(Notif<T>),
    Send(T, Seq<u8>),
    Submit(Timer<T>, core::time::Duration),
}

spec fn notif_view<T>(n: Notification<'_, T>) -> Notif<T> {
    match n {
        Notification::MemberUp(a) => Notif::MemberUp(*a),
        Notification::MemberDown(a) => Notif::MemberDown(*a),
        Notification::Rename(a, b) => Notif::Rename(*a, *b),
        Notification::Active => Notif::Active,
        Notification::Idle => Notif::Idle,
        Notification::Defunct => Notif::Defunct,
        Notification::Rejoin(a) => Notif::Rejoin(*a),
    }
}

trait Runtime<T>: Sized
where
    T: Identity,
{
    spec fn log(&self) -> Seq<Effect<T>>;

    fn notify(&mut self, notification: Notification<'_, T>)
        ensures (*final(self)).log() == (*old(self)).log().push(Effect::Notify(notif_view(notification)));

    fn send_to(&mut self, to: T, data: &[u8])
        ensures (*final(self)).log() == (*old(self)).log().push(Effect::Send(to, data@));

    fn submit_after(&mut self, event: Timer<T>, after: core::time::Duration)
        ensures (*final(self)).log() == (*old(self)).log().push(Effect::Submit(event, after));
}
