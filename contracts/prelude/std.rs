// ---- trusted prelude: assumed specifications for std functions vstd lacks ----
pub assume_specification<T> [ <[T]>::swap ] (s: &mut [T], a: usize, b: usize)
    requires a < old(s)@.len(), b < old(s)@.len(),
    ensures final(s)@ == old(s)@.update(a as int, old(s)@[b as int]).update(b as int, old(s)@[a as int]);
