    // F2 (C19): periodic announce to down members picks a Down record that
    // bears the instance's own address (an older identity of itself).
    #[test]
    fn verif_f2_never_announces_to_own_address() {
        let mut c = config();
        c.periodic_announce_to_down_members = Some(config::PeriodicParams {
            frequency: Duration::from_secs(5),
            num_members: NonZeroUsize::new(3).unwrap(),
        });
        let me = ID::new_with_bump(1, 5);
        let mut foca = Foca::new(me, c, rng(), codec());
        let mut runtime = AccumulatingRuntime::new();
        // become connected
        assert_eq!(Ok(()), foca.apply(Member::alive(ID::new(2)), &mut runtime));
        // echo of our own past: stored as Down
        assert_eq!(
            Ok(()),
            foca.apply(Member::alive(ID::new_with_bump(1, 4)), &mut runtime)
        );
        runtime.clear();
        assert_eq!(
            Ok(()),
            foca.handle_timer(Timer::PeriodicAnnounceDown(foca.timer_token()), &mut runtime)
        );
        for (dst, _data) in runtime.take_all_data() {
            assert_ne!(me.addr(), dst.addr(), "datagram addressed to own address");
        }
    }
