
// ---- appended by /verif/tools/run_kani.sh to the scratch copy of src/broadcast.rs (Entry is private to this module) ----
#[cfg(kani)]
mod verif_kani_inline {
    use super::*;
    use core::cmp::Ordering;

    /// Entry's Ord/PartialOrd/PartialEq == entry_cmp (contracts/frag/broadcast.in): more transmissions left first, then longer data.
    /// Loop-free over every pair of `remaining_tx` values; data lengths 0..=3 (only `len()` is compared).
    #[kani::proof]
    #[kani::unwind(6)]
    fn kernel_entry_cmp() {
        let (ra, rb) = (kani::any::<usize>(), kani::any::<usize>());
        let (la, lb) = (kani::any::<usize>() % 4, kani::any::<usize>() % 4);
        let a = Entry { remaining_tx: ra, data: alloc::vec![1u8; la], item: 0u8 };
        let b = Entry { remaining_tx: rb, data: alloc::vec![2u8; lb], item: 1u8 };
        let expect = if ra < rb {
            Ordering::Less
        } else if ra > rb {
            Ordering::Greater
        } else if la < lb {
            Ordering::Less
        } else if la > lb {
            Ordering::Greater
        } else {
            Ordering::Equal
        };
        assert!(a.cmp(&b) == expect);
        assert!(a.partial_cmp(&b) == Some(expect));
        assert!((a == b) == (expect == Ordering::Equal));
    }
}
