// ---- trusted prelude: user-supplied Identity (src/identity.rs), with ghost members ----
// generic `==` is usable only under this precondition (A-eq)
pub open spec fn lawful_eq<A: PartialEq>() -> bool {
    A::obeys_eq_spec() && forall|x: A, y: A| x.eq_spec(&y) == (x == y)
}

trait Identity: Clone + Eq + Sized {
    type Addr: PartialEq;

    spec fn addr_of(&self) -> Self::Addr;

    spec fn wins(&self, adversary: &Self) -> bool;

    spec fn renew_spec(&self) -> Option<Self>;

    // A-renew: a renewed identity keeps the address (it exists to win the conflict for that address)
    proof fn lemma_renew_addr(&self)
        ensures self.renew_spec().is_some() ==> self.renew_spec().unwrap().addr_of() == self.addr_of();

    fn renew(&self) -> (r: Option<Self>)
        ensures r == self.renew_spec();

    fn addr(&self) -> (r: Self::Addr)
        ensures r == self.addr_of();

    // A-win-pre: the bundled SocketAddr impls panic when asked about a
    // conflict with an equal identity, so callers must guarantee distinctness
    fn win_addr_conflict(&self, _adversary: &Self) -> (r: bool)
        requires *self != *_adversary,
        ensures r == self.wins(_adversary);
}

// A-clone: clone() returns an equal value (stated as a precondition where used)
pub open spec fn lawful_clone<A: Clone>() -> bool {
    forall|a: A, b: A| call_ensures(A::clone, (&a,), b) ==> a == b
}

spec fn laws<T: Identity>() -> bool {
    lawful_eq::<T>() && lawful_eq::<T::Addr>() && lawful_clone::<T>()
}
