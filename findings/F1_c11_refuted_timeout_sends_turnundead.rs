    // F1 (C11): a refuted suspicion timeout must have no effect at all, yet
    // with notify_down_members a TurnUndead datagram is sent to the (live) member.
    #[test]
    fn verif_f1_refuted_timeout_has_no_effect() {
        let config = {
            let mut c = config();
            c.notify_down_members = true;
            c
        };
        let mut foca = Foca::new(ID::new(1), config, rng(), codec());
        let mut runtime = AccumulatingRuntime::new();
        assert_eq!(Ok(()), foca.apply(Member::suspect(ID::new(2)), &mut runtime));
        // refutation: Alive at a higher incarnation
        assert_eq!(
            Ok(()),
            foca.apply(Member::new(ID::new(2), 1, State::Alive), &mut runtime)
        );
        runtime.clear();
        assert_eq!(
            Ok(()),
            foca.handle_timer(
                Timer::ChangeSuspectToDown {
                    member_id: ID::new(2),
                    incarnation: 0,
                    token: foca.timer_token(),
                },
                &mut runtime
            )
        );
        assert_eq!(1, foca.num_members(), "member 2 stays active");
        assert!(
            runtime.is_empty(),
            "cancelled timeout must produce no datagram/notification/timer"
        );
    }
