#!/bin/bash
# dev helper: try_mutant.sh <patch.diff> <unit>  -- runs the unit against a scratch copy of /repo with the patch applied
p=$(readlink -f "$1"); u=$2
d=$(mktemp -d /tmp/verif_mut.XXXXXX); trap 'rm -rf "$d"' EXIT
rsync -a --exclude target --exclude .git /repo/ "$d"/
(cd "$d" && patch -p1 -s < "$p") || { echo "patch failed"; exit 2; }
REPO="$d" /verif/tools/v.sh "$u" 2>&1 | grep -v "^\s*|" | grep -A6 "^error\|EXTRACT\|verification-results\|'verified'" | head -${3:-40}
