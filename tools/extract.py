#!/usr/bin/env python3
"""Mechanical extraction of foca's real functions/types into a Verus input file.

A template (contracts/<unit>.rs.in) is ordinary Verus text plus `//@` directives.
Everything that is not a directive is copied verbatim (prelude, spec functions,
lemmas, impl headers).  Directives pull *source text* out of /repo/src on every
run, token for token, apply the documented normalisation rules (N1..N8, see
DESIGN.md section 2.2) and splice contracts / loop invariants / proof hints at
named places.  Nothing in a function body is ever written by hand in a template.

Directives
  //@type <file> <Name>                 extract `struct|enum Name` (N1,N2,N3,N5)
  //@fn <file> <ImplKey>::<fn>          start a function block; ImplKey is the
                                        self type (`Member`) or `Trait for Type`
                                        or `-` for a free function
    //@ret <name>                       name the return value
    //@attr <text>                      attribute line(s) put before the fn
    //@sig "<old>" => "<new>"           textual substitution in the signature
    //@sub "<old>" => "<new>"           textual substitution in the body (N8 hoists
                                        and listed rewrites; must match exactly once
                                        unless `xN` suffix given)
    //@spec                             following raw lines = requires/ensures
    //@loop <k>                         following raw lines = invariant/decreases
                                        of the k-th loop (1-based, textual order)
    //@after "<line text>" [#k]         following raw lines inserted after the
                                        (k-th) body line whose stripped text equals
                                        / starts with the given text
    //@before "<line text>" [#k]        likewise, before
    //@end
A failed anchor or rule-count mismatch raises ExtractError -> exit code 2
(undecided), never an alarm.
"""
import hashlib
import json
import os
import re
import sys

sys.path.insert(0, os.path.dirname(os.path.abspath(__file__)))
from rustlex import scan, match_close, code_mask  # noqa: E402


class ExtractError(Exception):
    pass


REPO = os.environ.get('REPO', '/repo')
_src_cache = {}


def load(relfile):
    p = os.path.join(REPO, 'src', relfile)
    if p not in _src_cache:
        try:
            _src_cache[p] = open(p).read()
        except OSError as e:
            raise ExtractError('lost anchor: cannot read %s (%s)' % (p, e))
    return _src_cache[p]


# --------------------------------------------------------------------------
# locating items

def _word_at(src, i, w):
    if not src.startswith(w, i):
        return False
    if i > 0 and (src[i - 1].isalnum() or src[i - 1] == '_'):
        return False
    j = i + len(w)
    if j < len(src) and (src[j].isalnum() or src[j] == '_'):
        return False
    return True


def top_level_items(src):
    """Yield (keyword, start_idx) for impl/struct/enum/fn/trait/const/type at brace depth 0 (code only)."""
    depth = 0
    mask_iter = scan(src)
    for i, kind, t in mask_iter:
        if kind != 'code':
            continue
        if t == '{':
            depth += 1
        elif t == '}':
            depth -= 1
        elif depth == 0 and t in 'isefmt':
            for w in ('impl', 'struct', 'enum', 'fn', 'mod', 'trait'):
                if _word_at(src, i, w):
                    yield (w, i)


def _skip_angle(src, i):
    """src[i] == '<': return index just after the matching '>' (ignores '->' and '=>')."""
    depth = 0
    j = i
    while j < len(src):
        c = src[j]
        if c == '<':
            depth += 1
        elif c == '>' and src[j - 1] not in '-=':
            depth -= 1
            if depth == 0:
                return j + 1
        j += 1
    raise ExtractError('unbalanced <> at %d' % i)


def parse_impl_header(h):
    """'impl<T> Foo for Bar<T> where ..' -> ('Foo for Bar' | 'Bar')"""
    s = h.strip()
    assert s.startswith('impl')
    s = s[4:].lstrip()
    if s.startswith('<'):
        s = s[_skip_angle(s, 0):].lstrip()
    s = re.split(r'\bwhere\b', s)[0].strip()

    def base(t):
        t = t.strip()
        t = re.sub(r'^(core|alloc|std|crate)::(\w+::)*', '', t)
        m = re.match(r'[&\w\[\]]+', t)
        return m.group(0) if m else t
    if re.search(r'\bfor\b', s):
        a, b = re.split(r'\bfor\b', s, 1)
        return base(a) + ' for ' + base(b)
    return base(s)


def find_impls(src):
    res = []
    for w, i in top_level_items(src):
        if w != 'impl':
            continue
        # header up to the first code '{'
        j = i
        for k, kind, t in scan(src, i):
            if kind == 'code' and t == '{':
                j = k
                break
        header = src[i:j]
        close = match_close(src, j)
        # preceding attribute on the same item (look back over whitespace/attrs)
        pre = src[max(0, i - 200):i]
        is_test = bool(re.search(r'#\[cfg\(test\)\]\s*$', pre))
        res.append(dict(key=parse_impl_header(header), header=header, body=(j, close), test=is_test,
                        cfg=re.search(r'#\[cfg\(([^\]]*)\)\]\s*$', pre).group(1) if re.search(r'#\[cfg\(([^\]]*)\)\]\s*$', pre) else None))
    return res


def find_fn_in(src, lo, hi, name, want_depth):
    """Locate `fn name` within src[lo:hi] at relative brace depth want_depth. Returns (start, sig_end_brace, close)."""
    depth = 0
    for i, kind, t in scan(src, lo, hi):
        if kind != 'code':
            continue
        if t == '{':
            depth += 1
        elif t == '}':
            depth -= 1
        elif t == 'f' and depth == want_depth and _word_at(src, i, 'fn'):
            m = re.match(r'fn\s+(\w+)', src[i:i + 200])
            if m and m.group(1) == name:
                # qualifiers before fn
                st = i
                while True:
                    m2 = re.search(r'(pub(\([^)]*\))?|const|async|unsafe|extern)\s*$', src[lo:st])
                    if not m2:
                        break
                    st = lo + m2.start()
                # body brace
                p = i + 2
                # skip name
                p = src.index(name, p) + len(name)
                q = p
                while src[q].isspace():
                    q += 1
                if src[q] == '<':
                    q = _skip_angle(src, q)
                while src[q].isspace():
                    q += 1
                if src[q] != '(':
                    raise ExtractError('cannot parse signature of %s' % name)
                pclose = match_close(src, q)
                ob = None
                for k, kind2, t2 in scan(src, pclose + 1, hi):
                    if kind2 == 'code' and t2 in '{;':
                        ob = k
                        break
                if ob is None:
                    raise ExtractError('no body for %s' % name)
                if src[ob] == ';':
                    return (st, ob, ob, q, pclose)
                return (st, ob, match_close(src, ob), q, pclose)
    return None


def locate_fn(relfile, implkey, name):
    src = load(relfile)
    if implkey == '-':
        r = find_fn_in(src, 0, len(src), name, 0)
        if r:
            return src, r
        raise ExtractError('lost anchor: free fn %s in %s' % (name, relfile))
    cands = []
    for im in find_impls(src):
        if im['test'] or im['key'] != implkey:
            continue
        if im['cfg'] and 'tracing' in im['cfg']:
            continue
        lo, hi = im['body']
        r = find_fn_in(src, lo, hi + 1, name, 1)
        if r:
            cands.append(r)
    if len(cands) != 1:
        raise ExtractError('lost anchor: %s::%s in %s (%d candidates)' % (implkey, name, relfile, len(cands)))
    return src, cands[0]


def locate_type(relfile, name):
    src = load(relfile)
    for w, i in top_level_items(src):
        if w in ('struct', 'enum') and re.match(r'(struct|enum)\s+' + re.escape(name) + r'\b', src[i:]):
            # extent
            for k, kind, t in scan(src, i):
                if kind == 'code' and t in '{;(':
                    break
            if src[k] == '{':
                end = match_close(src, k) + 1
            elif src[k] == '(':
                end = src.index(';', match_close(src, k)) + 1
            else:
                end = k + 1
            return src, i, end
    raise ExtractError('lost anchor: type %s in %s' % (name, relfile))


# --------------------------------------------------------------------------
# normalisation rules; each returns new text and bumps counters

def _stmt_end(s, i):
    """Index just past the statement/arm/variant starting at i (first non-space)."""
    j = i
    while s[j].isspace():
        j += 1
    first = re.match(r'\w+', s[j:])
    blocky = first and first.group(0) in ('if', 'match', 'for', 'while', 'loop') or s[j] == '{'
    depth = 0
    for k, kind, t in scan(s, j):
        if kind != 'code':
            continue
        if t in '([{':
            depth += 1
        elif t in ')]}':
            depth -= 1
            if depth < 0:
                return k  # ran into enclosing close: stop before it
            if depth == 0 and t == '}' and blocky:
                # `if .. {} else {}` chains
                rest = s[k + 1:]
                m = re.match(r'\s*else\b', rest)
                if m:
                    continue
                return k + 1
        elif depth == 0 and t in ';,':
            return k + 1
    return len(s)


DROP_CFGS = [r'feature\s*=\s*"tracing"', r'feature\s*=\s*"unstable-notifications"', r'test',
             r'any\(feature\s*=\s*"tracing",\s*test\)']


def n3_cfg(text, cnt):
    """Drop statements/items under cfg(feature="tracing"|"unstable-notifications"|test)."""
    pat = re.compile(r'#\[cfg\((' + '|'.join(DROP_CFGS) + r')\)\]')
    while True:
        m = None
        for i, kind, t in scan(text):
            if kind == 'code' and t == '#':
                m = pat.match(text, i)
                if m:
                    break
        if not m:
            return text
        end = _stmt_end(text, m.end())
        # swallow the rest of the line if only whitespace remains
        ls = text.rfind('\n', 0, m.start()) + 1
        if text[ls:m.start()].strip() == '':
            st = ls
        else:
            st = m.start()
        nl = text.find('\n', end)
        if nl >= 0 and text[end:nl].strip() == '':
            end = nl + 1
        text = text[:st] + text[end:]
        cnt['N3'] = cnt.get('N3', 0) + 1


def n2_attrs(text, cnt):
    """Drop doc comments and inert attributes."""
    out = []
    last = 0
    for i, kind, t in scan(text):
        if kind == 'comment' and (t.startswith('///') or t.startswith('//!')):
            out.append(text[last:i])
            last = i + len(t)
            cnt['N2'] = cnt.get('N2', 0) + 1
    out.append(text[last:])
    text = ''.join(out)
    pat = re.compile(r'#\[(must_use|inline|derive\([^\]]*\)|cfg_attr\([^\]]*\]|expect\([^\]]*\)|allow\([^\]]*\))\]?[ \t]*\n?')

    def attr_end(s, i):
        # s[i] == '#', s[i+1]=='['
        return match_close(s, i + 1) + 1
    res = []
    i = 0
    mask = code_mask(text)
    while i < len(text):
        if text[i] == '#' and mask[i] and text.startswith('#[', i):
            e = attr_end(text, i)
            inner = text[i + 2:e - 1].strip()
            if re.match(r'(must_use|inline|derive|cfg_attr|expect|allow|doc)\b', inner):
                cnt['N2'] = cnt.get('N2', 0) + 1
                # swallow trailing whitespace/newline
                j = e
                while j < len(text) and text[j] in ' \t':
                    j += 1
                if j < len(text) and text[j] == '\n' and text[text.rfind('\n', 0, i) + 1:i].strip() == '':
                    j += 1
                    # also drop the indentation before the attribute
                    k = len(res)
                    while k > 0 and res[k - 1] in ' \t':
                        k -= 1
                    del res[k:]
                i = j
                continue
        res.append(text[i])
        i += 1
    return ''.join(res)


def _split_args(s):
    args, depth, cur = [], 0, []
    last = 0
    for i, kind, t in scan(s):
        if kind == 'code':
            if t in '([{':
                depth += 1
            elif t in ')]}':
                depth -= 1
            elif t == ',' and depth == 0:
                args.append(s[last:i])
                last = i + 1
    args.append(s[last:])
    return [a.strip() for a in args if a.strip() != '']


def n4_debug_assert(text, cnt):
    for mac, op in (('debug_assert_eq!', '=='), ('debug_assert_ne!', '!=')):
        while True:
            idx = -1
            for i, kind, t in scan(text):
                if kind == 'code' and t == 'd' and text.startswith(mac, i):
                    idx = i
                    break
            if idx < 0:
                break
            po = idx + len(mac)
            while text[po].isspace():
                po += 1
            pc = match_close(text, po)
            args = _split_args(text[po + 1:pc])
            if len(args) < 2:
                raise ExtractError('N4: cannot split ' + text[idx:pc + 1])
            text = text[:idx] + 'debug_assert_((%s) %s (%s))' % (args[0], op, args[1]) + text[pc + 1:]
            cnt['N4'] = cnt.get('N4', 0) + 1
    # plain debug_assert!(c [, msg]) -> debug_assert_(c): a prelude function whose precondition is `c`
    while True:
        idx = -1
        for i, kind, t in scan(text):
            if kind == 'code' and t == 'd' and text.startswith('debug_assert!', i):
                idx = i
                break
        if idx < 0:
            break
        po = idx + len('debug_assert!')
        while text[po].isspace():
            po += 1
        pc = match_close(text, po)
        args = _split_args(text[po + 1:pc])
        text = text[:idx] + 'debug_assert_(%s)' % args[0] + text[pc + 1:]
        cnt['N4'] = cnt.get('N4', 0) + 1
    return text


def n1_vis(text, cnt):
    def rep(m):
        cnt['N1'] = cnt.get('N1', 0) + 1
        return ''
    mask = code_mask(text)
    out = []
    i = 0
    pat = re.compile(r'pub(\s*\([^)]*\))?\s+')
    while i < len(text):
        if mask[i] and _word_at(text, i, 'pub'):
            m = pat.match(text, i)
            if m:
                cnt['N1'] = cnt.get('N1', 0) + 1
                i = m.end()
                continue
        out.append(text[i])
        i += 1
    return ''.join(out)


def n5_errbox(text, cnt):
    t2, k = re.subn(r'Box<dyn core::error::Error \+ Send \+ Sync>', 'ErrBox', text)
    t2, k2 = re.subn(r'\bBox::new\(', 'ErrBox::new(', t2)
    if k + k2:
        cnt['N5'] = cnt.get('N5', 0) + k + k2
    return t2


def n6_wild(text, cnt):
    t2, k = re.subn(r'\|_\|', '|_w|', text)
    if k:
        cnt['N6'] = cnt.get('N6', 0) + k
    return t2


def n13_size_of(text, cnt):
    """`mem::size_of::<uN>()` -> the literal (Verus has no exec model of size_of; definitional for the fixed-width integers)."""
    def rep(m):
        cnt['N13'] = cnt.get('N13', 0) + 1
        return {'u8': '1usize', 'i8': '1usize', 'u16': '2usize', 'i16': '2usize', 'u32': '4usize', 'i32': '4usize', 'u64': '8usize', 'i64': '8usize'}[m.group(2)]
    return re.sub(r'\b(core::mem::|std::mem::|mem::)?size_of::<(u8|i8|u16|i16|u32|i32|u64|i64)>\(\)', rep, text)


def n7_paths(text, cnt):
    t2, k = re.subn(r'\b(member|config|crate)::(?=[A-Za-z])', '', text)
    if k:
        cnt['N7'] = cnt.get('N7', 0) + k
    return t2


def normalise(text, cnt, vis=True):
    text = n3_cfg(text, cnt)
    text = n2_attrs(text, cnt)
    text = n4_debug_assert(text, cnt)
    text = n5_errbox(text, cnt)
    text = n6_wild(text, cnt)
    text = n7_paths(text, cnt)
    text = n13_size_of(text, cnt)
    if vis:
        text = n1_vis(text, cnt)
    return text


# --------------------------------------------------------------------------
# N14: automatic inlining of small helper functions that the templates do not know about
AUTO_INLINE = [x for x in os.environ.get('VERIF_AUTO_INLINE', '').split(',') if x]
# robustness modes (set by the runner, never on the first, deciding-as-is attempt):
#   DROP_LOST_HINTS: a //@before / //@after block whose anchor is lost is left out (hints are proof aids: leaving one out can make a
#                    proof fail, never succeed wrongly); the function is recorded in meta['dropped_hints']
#   FORCE_STUB:      functions emitted contract-only (external_body) because their body cannot be brought under contract on this
#                    tree (lost rule anchor, front-end rejection); recorded in meta['isolated']
DROP_LOST_HINTS = False
FORCE_STUB = set()
#   ISOLATE:         a //@fn block whose body rules fail (lost closure / loop / substitution anchor) is emitted contract-only
#                    instead of failing the whole unit; recorded in meta['isolated'] with the reason
ISOLATE = False
# the runner verifies units in parallel threads: options are per thread
import threading  # noqa: E402
_tl = threading.local()


def opt(name, default):
    return getattr(_tl, name, default)



def subset_flags(body):
    """Constructs Verus 0.2026.09.13 is known to handle imprecisely (tools/subset_probes): a function using one is outside the
    verified subset, and a failed obligation in it is 'undecided', never a violation."""
    flags = []
    try:
        mask = code_mask(body)
        code = ''.join(c if m else ' ' for c, m in zip(body, mask))
    except Exception:
        code = body
    # match-arm guard:  <pattern> if <cond> =>   (no '{', '}' or ';' between the `if` and the `=>`)
    for m in re.finditer(r'\bif\b([^{};]*?)=>', code):
        if '=>' not in m.group(1):
            flags.append('match-arm guard')
            break
    return flags



def find_helper(relfile, name):
    """Locate `fn name` anywhere (non-test) in relfile; returns (params, body_text, has_self) or None."""
    src = load(relfile)
    mask = code_mask(src)
    for m in re.finditer(r'\bfn\s+' + re.escape(name) + r'\b', src):
        if not mask[m.start()]:
            continue
        # skip functions inside `#[cfg(test)] mod x { .. }`
        in_test = False
        for tmm in re.finditer(r'#\[cfg\(test\)\]\s*(pub(\([^)]*\))?\s+)?mod\s+\w+\s*\{', src):
            ob_ = tmm.end() - 1
            if ob_ < m.start() <= match_close(src, ob_):
                in_test = True
        if in_test:
            continue
        q = m.end()
        while src[q].isspace():
            q += 1
        if src[q] == '<':
            return None  # generic helpers are not inlined
        if src[q] != '(':
            return None
        pc = match_close(src, q)
        params = _split_args(src[q + 1:pc])
        ob = None
        for k, kind, t in scan(src, pc + 1):
            if kind == 'code' and t in '{;':
                ob = k
                break
        if ob is None or src[ob] == ';':
            return None
        close = match_close(src, ob)
        body = src[ob:close + 1]
        if re.search(r'\breturn\b|\bloop\b|\bwhile\b|\bfor\b', strip_code_words(body)) or re.search(r'\b' + re.escape(name) + r'\s*\(', body):
            return None
        has_self = bool(params) and re.match(r'&?\s*(mut\s+)?self\b', params[0]) is not None
        names = []
        for prm in (params[1:] if has_self else params):
            pm = re.match(r'(mut\s+)?(\w+)\s*:', prm.strip())
            if not pm:
                return None
            names.append(pm.group(2))
        return names, body, has_self
    return None


def strip_code_words(text):
    return ''.join(t if kind == 'code' else ' ' for _, kind, t in scan(text))


def auto_inline(body, relfile, cnt):
    for name in opt('auto_inline', AUTO_INLINE):
        h = find_helper(relfile, name)
        if not h:
            continue
        names, hbody, has_self = h
        while True:
            mask = code_mask(body)
            hit = None
            for m in re.finditer(r'((self\s*\.\s*)|(Self\s*::\s*))?\b' + re.escape(name) + r'\s*\(', body):
                if mask[m.start()] and (m.start() == 0 or not (body[m.start() - 1].isalnum() or body[m.start() - 1] in '_.')) or (mask[m.start()] and m.group(1)):
                    hit = m
                    break
            if not hit:
                break
            po = hit.end() - 1
            pc = match_close(body, po)
            args = _split_args(body[po + 1:pc])
            if len(args) != len(names):
                break
            lets = ' '.join('let %s = %s;' % (n, a) for n, a in zip(names, args))
            body = body[:hit.start()] + '{ ' + lets + ' ' + hbody + ' }' + body[pc + 1:]
            cnt['N14'] = cnt.get('N14', 0) + 1
    return body


# --------------------------------------------------------------------------
# loops

def find_loops(body):
    """Indices of the '{' opening each loop body, in textual order."""
    res = []
    mask = code_mask(body)
    i = 0
    while i < len(body):
        if mask[i] and body[i] in 'wfl':
            for w in ('while', 'for', 'loop'):
                if _word_at(body, i, w):
                    # `for` in `for<'a>` HRTB or `impl X for Y` cannot occur inside bodies we extract
                    depth = 0
                    for k, kind, t in scan(body, i):
                        if kind != 'code':
                            continue
                        if t in '([':
                            depth += 1
                        elif t in ')]':
                            depth -= 1
                        elif t == '{' and depth == 0:
                            res.append(k)
                            break
                    i += len(w)
                    break
        i += 1
    return res


# --------------------------------------------------------------------------
# template processing

def ws_regex(pat):
    """regex matching `pat` with every whitespace run (also none) treated as optional whitespace between tokens"""
    toks = re.findall(r'\w+|[^\w\s]', pat)
    return re.compile(r'\s*'.join(re.escape(t) for t in toks))


def ws_sub(text, old, new, n, what, cnt, rule):
    rx = ws_regex(old)
    hits = list(rx.finditer(text))
    if n == -1 and len(hits) <= 1:
        n = len(hits)
    if n == -2:  # x*: a purely mechanical rule (N11 reborrows), any number of occurrences
        n = len(hits)
    if len(hits) != n:
        raise ExtractError('%s rule mismatch: %r occurs %d times, expected %d' % (what, old, len(hits), n))
    for m in reversed(hits):
        text = text[:m.start()] + new + text[m.end():]
    cnt[rule] = cnt.get(rule, 0) + n
    return text


def closure_extent(body, head_start):
    """body[head_start] == '|' opening a closure head.  Returns (head_end, body_start, body_end, is_block)."""
    j = body.index('|', head_start + 1)
    head_end = j + 1
    k = head_end
    while body[k].isspace():
        k += 1
    if body[k] == '{':
        return head_end, k, match_close(body, k) + 1, True
    depth = 0
    for i, kind, t in scan(body, k):
        if kind != 'code':
            continue
        if t in '([{':
            depth += 1
        elif t in ')]}':
            if depth == 0:
                return head_end, k, i, False
            depth -= 1
        elif t in ',;' and depth == 0:
            return head_end, k, i, False
    raise ExtractError('cannot delimit closure body')


def annotate_closure(body, head, k, newhead, cnt):
    rx = ws_regex(head)
    hits = [m for m in rx.finditer(body)]
    mask = code_mask(body)
    hits = [m for m in hits if mask[m.start()]]
    if len(hits) < k:
        raise ExtractError('lost anchor: closure %r (#%d)' % (head, k))
    m = hits[k - 1]
    head_end, bs, be, is_block = closure_extent(body, m.start())
    inner = body[bs:be]
    if not is_block:
        inner = '{ ' + inner.rstrip() + ' }'
    cnt['CLOSURE-SPEC'] = cnt.get('CLOSURE-SPEC', 0) + 1
    return body[:m.start()] + '/*@injx*/' + newhead.strip() + ' /*@xinj*/' + inner + body[be:]


def _recv_start(body, dot):
    """start index of the method-chain receiver that ends right before body[dot]=='.'"""
    # table of bracket pairs
    opens = {}
    stack = []
    for i, kind, t in scan(body):
        if kind != 'code':
            continue
        if t in '([{':
            stack.append(i)
        elif t in ')]}':
            if stack:
                opens[i] = stack.pop()
    i = dot
    while True:
        j = i - 1
        while j >= 0 and body[j].isspace():
            j -= 1
        if j < 0:
            return 0
        c = body[j]
        if c in ')]':
            i = opens[j]
            continue
        if c.isalnum() or c == '_':
            while j >= 0 and (body[j].isalnum() or body[j] == '_'):
                j -= 1
            i = j + 1
            continue
        if c == '.' or c == '?':
            i = j
            continue
        if c == ':' and j > 0 and body[j - 1] == ':':
            i = j - 1
            continue
        if c == '&' or c == '*':
            i = j
            continue
        return i


def desugar_option(body, method, k, cnt):
    """Definitional desugaring of Option::unwrap_or_else(|| B) / Option::map(|p| E) into a match (rule N10)."""
    rx = re.compile(r'\.\s*' + method + r'\s*\(\s*\|')
    mask = code_mask(body)
    hits = [m for m in rx.finditer(body) if mask[m.start()]]
    if len(hits) < k:
        raise ExtractError('lost anchor: .%s(|..|) #%d' % (method, k))
    m = hits[k - 1]
    dot = m.start()
    rs = _recv_start(body, dot)
    recv = body[rs:dot].rstrip()
    bar = m.end() - 1
    head_end, bs, be, is_block = closure_extent(body, bar)
    params = body[bar + 1:head_end - 1].strip()
    inner = body[bs:be]
    # closing paren of the method call
    q = be
    while body[q].isspace():
        q += 1
    if body[q] != ')':
        raise ExtractError('desugar %s: expected ) after closure' % method)
    if method == 'unwrap_or_else':
        if params != '':
            raise ExtractError('desugar unwrap_or_else: closure takes parameters')
        new = 'match %s { Some(v_some_) => v_some_, None => %s }' % (recv, inner if is_block else '{ ' + inner + ' }')
    elif method == 'map':
        new = 'match %s { Some(%s) => Some(%s), None => None }' % (recv, params, inner)
    else:
        raise ExtractError('desugar: unsupported method ' + method)
    cnt['N10'] = cnt.get('N10', 0) + 1
    return body[:rs] + new + body[q + 1:]


def desugar_for(body, k, cnt):
    """Rule N9: `for PAT in EXPR { B }`  =>  `let mut iter_k = (EXPR).into_iter(); loop { let Some(PAT) = iter_k.next() else { break; }; B }`
    (the definitional desugaring of `for`, minus the implicit drop scope)."""
    mask = code_mask(body)
    hits = [i for i in range(len(body)) if mask[i] and _word_at(body, i, 'for')]
    if len(hits) < k:
        raise ExtractError('lost anchor: for-loop #%d' % k)
    i = hits[k - 1]
    m = re.compile(r'for\s+(.*?)\s+in\s+', re.S).match(body, i)
    if not m:
        raise ExtractError('desugar for: cannot parse header')
    pat = m.group(1)
    # expression runs up to the '{' at bracket depth 0
    depth = 0
    ob = None
    for j, kind, t in scan(body, m.end()):
        if kind != 'code':
            continue
        if t in '([':
            depth += 1
        elif t in ')]':
            depth -= 1
        elif t == '{' and depth == 0:
            ob = j
            break
    expr = body[m.end():ob].strip()
    var = 'iter_%d' % k
    new = 'let mut %s = (%s).into_iter(); loop {\n let Some(%s) = %s.next() else { break; };' % (var, expr, pat, var)
    cnt['N9'] = cnt.get('N9', 0) + 1
    return body[:i] + new + body[ob + 1:]


def arm_tail_lines(blines, prefix):
    """Line indices of the tail expression of every match arm `<prefix>... => { ...; <tail> }` (only arms whose block ends in a
    one-line tail expression; an arm ending in a nested block has no such line)."""
    text = '\n'.join(blines)
    starts = [0]
    for l in blines:
        starts.append(starts[-1] + len(l) + 1)
    res = []
    mask = code_mask(text)
    for m in re.finditer(re.escape(prefix), text):
        if not mask[m.start()]:
            continue
        # must be at the start of a line (an arm pattern), not an expression
        ls = text.rfind('\n', 0, m.start()) + 1
        if text[ls:m.start()].strip() != '':
            continue
        # find `=>` then `{` at depth 0 after the pattern
        j = m.end()
        depth = sum(prefix.count(c) for c in '([{') - sum(prefix.count(c) for c in ')]}')
        arrow = None
        while j < len(text) - 1:
            c = text[j]
            if mask[j]:
                if c in '([{':
                    depth += 1
                elif c in ')]}':
                    depth -= 1
                    if depth < 0:
                        break
                elif c in ',;' and depth == 0:
                    break  # an expression, not an arm pattern
                elif c == '=' and text[j + 1] == '>' and depth == 0:
                    arrow = j
                    break
            j += 1
        if arrow is None:
            continue
        k = arrow + 2
        while k < len(text) and text[k].isspace():
            k += 1
        if k >= len(text) or text[k] != '{':
            continue
        close = match_close(text, k)
        # last non-blank, non-injected line strictly inside the block
        import bisect
        lo = bisect.bisect_right(starts, k) - 1
        hi = bisect.bisect_right(starts, close) - 1
        t = hi - 1
        while t > lo and (blines[t].strip() == '' or blines[t].startswith('/*@inj*/')):
            t -= 1
        if t <= lo:
            continue
        tail = blines[t].strip()
        if tail.endswith('}') or tail.endswith(';') or tail.endswith('{'):
            continue
        res.append(t)
    return res


def parse_quoted_pair(arg):
    m = re.match(r'\s*"((?:[^"\\]|\\.)*)"\s*=>\s*"((?:[^"\\]|\\.)*)"\s*(x(\d+|\?|\*))?\s*$', arg, re.S)
    if not m:
        raise ExtractError('bad substitution directive: ' + arg)
    un = lambda s: s.encode().decode('unicode_escape')
    return un(m.group(1)), un(m.group(2)), (-1 if m.group(4) == '?' else -2 if m.group(4) == '*' else int(m.group(4))) if m.group(4) else 1


def process_fn_block(head, lines, meta, stub=False):
    parts = head.split()
    if len(parts) < 2:
        raise ExtractError('bad //@fn: ' + head)
    relfile = parts[0]
    rest = head[len(relfile):].strip()
    implkey, name = rest.rsplit('::', 1)
    implkey = implkey.strip()
    name = name.strip()
    src, (st, ob, close, popen, pclose) = locate_fn(relfile, implkey, name)
    orig = src[st:close + 1]
    sig = src[st:ob]
    body = src[ob:close + 1]
    cnt = {}
    line_no = src.count('\n', 0, st) + 1
    line_end = src.count('\n', 0, close) + 1

    ret = None
    attrs = []
    spec = []
    loops = {}
    loopends = {}
    inserts = []  # (mode, anchor, k, lines)
    subs = []
    sigsubs = []
    rename = None
    cur = None
    for ln in lines:
        s = ln.strip()
        if s.startswith('//@'):
            d = s[3:].strip()
            kw = d.split(None, 1)[0]
            arg = d[len(kw):].strip()
            cur = None
            if kw == 'ret':
                ret = arg
            elif kw == 'attr':
                attrs.append(arg)
            elif kw == 'spec':
                cur = spec
            elif kw == 'loop':
                cur = loops.setdefault(int(arg), [])
            elif kw == 'loopend':
                # a hint block placed right before the closing brace of the k-th loop's body (robust against edits inside the body)
                cur = loopends.setdefault(int(arg), [])
            elif kw in ('after', 'before'):
                # one or more alternative anchors: "text" [#k] | "other text" [#k]  (first one found wins)
                alts = []
                for part in re.split(r'\s+\|\s+(?=(?:arm:)?"|fntail\b)', arg):
                    if part.strip() == 'fntail':
                        # the tail expression of the function body (its last line, if that is an expression and not a statement)
                        alts.append(('@fntail', 1))
                        continue
                    m = re.match(r'(arm:)?"((?:[^"\\]|\\.)*)"\s*(#(\d+))?$', part.strip())
                    if not m:
                        raise ExtractError('bad anchor: ' + arg)
                    # arm:"<pattern prefix>" = the tail-expression line of the match arm whose pattern starts with that text
                    alts.append(((('@arm:' if m.group(1) else '') + m.group(2).encode().decode('unicode_escape')), int(m.group(4) or 1)))
                cur = []
                inserts.append((kw, alts, 0, cur))
            elif kw == 'atend':
                cur = []
                inserts.append(('atend', None, 1, cur))
            elif kw == 'atstart':
                cur = []
                inserts.append(('atstart', None, 1, cur))
            elif kw == 'sub':
                subs.append(('sub',) + parse_quoted_pair(arg))
            elif kw == 'closure':
                m = re.match(r'"((?:[^"\\]|\\.)*)"\s*(#(\d+))?$', arg)
                if not m:
                    raise ExtractError('bad closure directive: ' + arg)
                cur = []
                subs.append(('closure', m.group(1), int(m.group(3) or 1), cur))
            elif kw == 'desugar':
                a = arg.split()
                subs.append(('desugar', a[0], int(a[1][1:]) if len(a) > 1 else 1))
            elif kw == 'sig':
                sigsubs.append(parse_quoted_pair(arg))
            elif kw == 'rename':
                rename = arg
            elif kw == 'label':
                meta.setdefault('fn_labels', {})[(implkey + '::' if implkey != '-' else '') + name] = re.findall(r'\[(C\d\d\.[\w\-.]+)\]', arg)
            else:
                raise ExtractError('unknown directive //@' + kw)
        else:
            if cur is None:
                if s == '':
                    continue
                raise ExtractError('stray text in //@fn block %s: %s' % (name, ln))
            cur.append(ln)

    # ---- signature
    sig = normalise(sig, cnt)
    for old, new, n in sigsubs:
        sig = ws_sub(sig, old, new, n, 'sig(%s)' % name, cnt, 'SIG')
    if rename:
        sig = re.sub(r'\bfn\s+' + re.escape(name) + r'\b', 'fn ' + rename, sig, 1)
    if ret:
        # find top-level '->' after the parameter list
        # (recompute param close in normalised sig)
        m = re.search(r'\bfn\s+\w+', sig)
        q = m.end()
        while sig[q].isspace():
            q += 1
        if sig[q] == '<':
            q = _skip_angle(sig, q)
        while sig[q].isspace():
            q += 1
        pc = match_close(sig, q)
        tail = sig[pc + 1:]
        m = re.match(r'(\s*->\s*)(.*?)(\s*(\bwhere\b.*)?)$', tail, re.S)
        if not m:
            raise ExtractError('cannot name return value of %s (no return type)' % name)
        sig = sig[:pc + 1] + m.group(1) + '(' + ret + ': ' + m.group(2).strip() + ')' + m.group(3)

    fullname = (implkey + '::' if implkey != '-' else '') + name
    fstub = opt('force_stub', FORCE_STUB)
    forced = (not stub) and (fullname in fstub or name in fstub)
    if stub or forced:
        # caller-side view (or an isolated function): same signature and the same contract text, body not used (external_body)
        out = ['#[verifier::external_body]', sig.rstrip()]
        mode = None
        for l in spec:
            st = l.strip()
            if st.startswith('requires'):
                mode = 'req'
            elif st.startswith('ensures'):
                mode = 'ens'
            if mode == 'ens':
                l = re.sub(r'\[(C\d\d\.[\w\-.]+)\]', r'(\1)', l)
            out.append('/*@inj*/' + l)
        out.append('{ unimplemented!() }')
        if forced:
            labs = sorted(set(re.findall(r'\[(C\d\d\.[\w\-.]+)\]', '\n'.join(lines))))
            meta.setdefault('isolated', {})[fullname] = dict(labels=labs)
        else:
            meta['stubs'].append(fullname)
        return '\n'.join(out)

    # ---- body
    if opt('auto_inline', AUTO_INLINE):
        body = auto_inline(body, relfile, cnt)
    body = normalise(body, cnt, vis=False)
    for sb in subs:
        if sb[0] == 'sub':
            body = ws_sub(body, sb[1], sb[2], sb[3], 'body(%s)' % name, cnt, 'N8')
        elif sb[0] == 'closure':
            body = annotate_closure(body, sb[1], sb[2], ' '.join(l.strip() for l in sb[3]), cnt)
        elif sb[0] == 'desugar' and sb[1] == 'for':
            body = desugar_for(body, sb[2], cnt)
        elif sb[0] == 'desugar':
            body = desugar_option(body, sb[1], sb[2], cnt)
    # loop invariants (insert from last to first so indices stay valid)
    if loopends:
        lp = find_loops(body)
        for k in sorted(loopends, reverse=True):
            if k < 1 or k > len(lp):
                raise ExtractError('lost anchor: loop %d of %s (found %d loops)' % (k, name, len(lp)))
            # matching close brace of the loop body
            depth = 0
            close = None
            for j, kind, t in scan(body, lp[k - 1]):
                if kind != 'code':
                    continue
                if t == '{':
                    depth += 1
                elif t == '}':
                    depth -= 1
                    if depth == 0:
                        close = j
                        break
            if close is None:
                raise ExtractError('lost anchor: end of loop %d of %s' % (k, name))
            ins = '\n' + '\n'.join('/*@inj*/' + l for l in loopends[k]) + '\n'
            body = body[:close] + ins + body[close:]
    if loops:
        lp = find_loops(body)
        for k in sorted(loops, reverse=True):
            if k < 1 or k > len(lp):
                raise ExtractError('lost anchor: loop %d of %s (found %d loops)' % (k, name, len(lp)))
            pos = lp[k - 1]
            ins = '\n' + '\n'.join('/*@inj*/' + l for l in loops[k]) + '\n'
            body = body[:pos] + ins + body[pos:]
    # line-anchored insertions
    if inserts:
        blines = body.split('\n')
        for mode, anchor, k, ins in inserts:
            if mode == 'atend':
                last = max(i for i, l in enumerate(blines) if l.strip() == '}')
                blines[last:last] = ['/*@inj*/' + l for l in ins]
                continue
            if mode == 'atstart':
                first = min(i for i, l in enumerate(blines) if l.strip().startswith('{'))
                blines[first + 1:first + 1] = ['/*@inj*/' + l for l in ins]
                continue
            at = None
            for anc, kk in anchor:
                if anc == '@fntail':
                    last = max(i for i, l in enumerate(blines) if l.strip() == '}')
                    t = last - 1
                    while t > 0 and (blines[t].strip() == '' or blines[t].startswith('/*@inj*/')):
                        t -= 1
                    tl = blines[t].strip()
                    if t > 0 and mode == 'before' and not (tl.endswith(';') or tl.endswith('}') or tl.endswith('{')):
                        at = t
                        break
                    continue
                if anc.startswith('@arm:'):
                    hits = arm_tail_lines(blines, anc[5:])
                    if len(hits) >= kk and mode == 'before':
                        at = hits[kk - 1]
                        break
                    continue
                hits = [i for i, l in enumerate(blines) if not l.startswith('/*@inj*/') and (l.strip() == anc or l.strip().startswith(anc))]
                if len(hits) >= kk:
                    at = hits[kk - 1] + (1 if mode == 'after' else 0)
                    break
            if at is None:
                if opt('drop_lost_hints', DROP_LOST_HINTS):
                    meta.setdefault('dropped_hints', {}).setdefault(fullname, []).append(anchor[0][0])
                    continue
                raise ExtractError('lost anchor in %s: line %r not found' % (name, anchor))
            blines[at:at] = ['/*@inj*/' + l for l in ins]
        body = '\n'.join(blines)

    out = []
    for a in attrs:
        out.append(a)
    out.append(sig.rstrip())
    for l in spec:
        out.append('/*@inj*/' + l)
    out.append(body)
    text = '\n'.join(out)
    meta['functions'].append(dict(
        name=(implkey + '::' if implkey != '-' else '') + name, file='src/' + relfile,
        lines=[line_no, line_end], sha256=hashlib.sha256(orig.encode()).hexdigest(), rules=cnt, outside_subset=subset_flags(body),
        hoists=[list(map(str, s[:3])) for s in subs]))
    return text


def process_type(arg, meta):
    parts = arg.split()
    relfile, name = parts[0], parts[1]
    src, st, end = locate_type(relfile, name)
    orig = src[st:end]
    cnt = {}
    text = normalise(orig, cnt)
    if 'pub' in parts[2:]:
        # N1': keep the type and its fields public (needed when a public std trait's spec impl mentions them)
        text = re.sub(r'^(\s*)(struct|enum)\b', r'\1pub \2', text, 1)
        out_lines = []
        depth = 0
        for l in text.split('\n'):
            if depth == 1 and re.match(r'\s*\w+\s*:', l):
                l = re.sub(r'^(\s*)', r'\1pub ', l, 1)
            depth += l.count('{') - l.count('}')
            out_lines.append(l)
        text = '\n'.join(out_lines)
    meta['types'].append(dict(name=name, file='src/' + relfile, lines=[src.count('\n', 0, st) + 1, src.count('\n', 0, end) + 1],
                              sha256=hashlib.sha256(orig.encode()).hexdigest(), rules=cnt))
    return text


def include(path, base):
    p = os.path.join(base, path)
    out = []
    for ln in open(p).read().split('\n'):
        st = ln.strip()
        if st.startswith('//@include '):
            out.extend(include(st[len('//@include '):].strip(), base))
        else:
            out.append(ln)
    return out


def generate(template_path, out_path, opts=None):
    opts = opts or {}
    _tl.auto_inline = list(opts.get('auto_inline', AUTO_INLINE))
    _tl.drop_lost_hints = bool(opts.get('drop_lost_hints', DROP_LOST_HINTS))
    _tl.force_stub = set(opts.get('force_stub', FORCE_STUB))
    _tl.isolate = bool(opts.get('isolate', ISOLATE))
    base = os.path.dirname(os.path.abspath(template_path))
    lines = open(template_path).read().split('\n')
    # resolve includes first
    exp = []
    for ln in lines:
        s = ln.strip()
        if s.startswith('//@include-stubs '):
            exp.append('//@stubmode on')
            exp.extend(include(s[len('//@include-stubs '):].strip(), base))
            exp.append('//@stubmode off')
        elif s.startswith('//@include '):
            exp.extend(include(s[len('//@include '):].strip(), base))
        else:
            exp.append(ln)
    lines = exp
    meta = dict(template=os.path.relpath(template_path), functions=[], types=[], stubs=[])
    stubmode = False
    out = []
    i = 0
    while i < len(lines):
        ln = lines[i]
        s = ln.strip()
        if s.startswith('//@fn '):
            j = i + 1
            blk = []
            while j < len(lines) and lines[j].strip() != '//@end':
                blk.append(lines[j])
                j += 1
            if j >= len(lines):
                raise ExtractError('unterminated //@fn block: ' + s)
            if stubmode:
                out.append(process_fn_block(s[6:].strip(), blk, meta, stub=True))
            else:
                head = s[6:].strip()
                try:
                    txt = process_fn_block(head, blk, meta)
                except ExtractError as e:
                    if not opt('isolate', False):
                        raise
                    rest = head[len(head.split()[0]):].strip()
                    ik, nm = rest.rsplit('::', 1)
                    full = (ik.strip() + '::' if ik.strip() != '-' else '') + nm.strip()
                    _tl.force_stub = set(opt('force_stub', set())) | {full}
                    txt = process_fn_block(head, blk, meta)  # contract only; a signature-level failure still propagates
                    meta.setdefault('isolated', {}).setdefault(full, {})['reason'] = str(e)
                out.append('/*@fnstart ' + head + '*/')
                out.append(txt)
                out.append('/*@fnend*/')
            i = j + 1
        elif s.startswith('//@stubmode '):
            stubmode = s.endswith('on')
            i += 1
        elif s.startswith('//@type '):
            out.append(process_type(s[8:], meta))
            i += 1
        elif s.startswith('//@'):
            raise ExtractError('unknown top-level directive: ' + s)
        else:
            out.append(ln)
            i += 1
    text = '\n'.join(out)
    # line map
    glines = text.split('\n')
    linemap = {}
    curfn = None
    final = []
    for idx, l in enumerate(glines):
        n = idx + 1
        m = re.match(r'/\*@fnstart (.*)\*/$', l)
        if m:
            curfn = m.group(1)
            final.append('')
            continue
        if l == '/*@fnend*/':
            curfn = None
            final.append('')
            continue
        inj = l.startswith('/*@inj*/')
        if inj:
            l = l[len('/*@inj*/'):]
        if '/*@injx*/' in l:
            inj = True
            l = l.replace('/*@injx*/', '').replace('/*@xinj*/', '')
        labels = re.findall(r'\[(C\d\d\.[\w\-.]+)\]', l)
        if curfn or labels:
            linemap[n] = dict(fn=curfn, inj=inj or curfn is None, labels=labels)
        final.append(l)
    open(out_path, 'w').write('\n'.join(final))
    meta['linemap'] = linemap
    meta['generated_sha256'] = hashlib.sha256('\n'.join(final).encode()).hexdigest()
    json.dump(meta, open(out_path + '.meta.json', 'w'), indent=1)
    return meta


if __name__ == '__main__':
    try:
        m = generate(sys.argv[1], sys.argv[2])
        print('generated %s: %d functions, %d types' % (sys.argv[2], len(m['functions']), len(m['types'])))
    except ExtractError as e:
        print('EXTRACT-ERROR: %s' % e)
        sys.exit(2)
