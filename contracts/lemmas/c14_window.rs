// ---------------------------------------------------------------------------------------------
// L-C14 (window): while the membership is stable with n active members, any 2n-1 consecutive results of
// `Members::next` contain every active member - for every layout of Down records, every starting cursor
// and every permutation chosen at every reshuffle.  The step relation below is exactly the postcondition
// of Members::next proved in the member unit (O C14.next); nothing here is a model of the code.
// ---------------------------------------------------------------------------------------------

// number of active records at positions [lo, hi)
spec fn cnt<T>(s: Seq<Member<T>>, lo: int, hi: int) -> nat
    decreases hi - lo
{
    if lo >= hi { 0 } else { cnt(s, lo, hi - 1) + (if 0 <= hi - 1 < s.len() && act(s[hi - 1]) { 1nat } else { 0nat }) }
}

proof fn lemma_cnt_split<T>(s: Seq<Member<T>>, lo: int, mid: int, hi: int)
    requires lo <= mid <= hi
    ensures cnt(s, lo, hi) == cnt(s, lo, mid) + cnt(s, mid, hi)
    decreases hi - mid
{
    if mid < hi { lemma_cnt_split(s, lo, mid, hi - 1); }
}

proof fn lemma_cnt_total<T>(s: Seq<Member<T>>)
    ensures cnt(s, 0, s.len() as int) == count_active(s)
    decreases s.len()
{
    if s.len() > 0 {
        lemma_cnt_total(s.drop_last());
        lemma_cnt_same(s, s.drop_last(), 0, s.len() - 1);
    }
}

proof fn lemma_cnt_same<T>(s: Seq<Member<T>>, t: Seq<Member<T>>, lo: int, hi: int)
    requires 0 <= lo, hi <= s.len(), hi <= t.len(), forall|i: int| lo <= i < hi ==> s[i] == t[i]
    ensures cnt(s, lo, hi) == cnt(t, lo, hi)
    decreases hi - lo
{
    if lo < hi { lemma_cnt_same(s, t, lo, hi - 1); }
}

proof fn lemma_cnt_bound<T>(s: Seq<Member<T>>, lo: int, hi: int)
    requires lo <= hi
    ensures cnt(s, lo, hi) <= hi - lo
    decreases hi - lo
{
    if lo < hi { lemma_cnt_bound(s, lo, hi - 1); }
}

// first_active_from in terms of counts
proof fn lemma_first_cnt<T>(s: Seq<Member<T>>, c: int)
    requires 0 <= c
    ensures
        first_active_from(s, c) >= 0 ==> cnt(s, c, first_active_from(s, c)) == 0 && cnt(s, c, first_active_from(s, c) + 1) == 1,
        first_active_from(s, c) < 0 ==> cnt(s, c, s.len() as int) == 0,
    decreases s.len() - c
{
    lemma_first_active(s, c);
    let p = first_active_from(s, c);
    if c < s.len() {
        if act(s[c]) {
            assert(cnt(s, c, c) == 0);
        } else {
            lemma_first_cnt(s, c + 1);
            if p >= 0 {
                lemma_cnt_split(s, c, c + 1, p);
                lemma_cnt_split(s, c, c + 1, p + 1);
            } else {
                lemma_cnt_split(s, c, c + 1, s.len() as int);
            }
            assert(cnt(s, c, c + 1) == 0) by { assert(cnt(s, c, c) == 0); }
        }
    }
}

// an active record inside [lo, hi) makes the count positive
proof fn lemma_cnt_pos<T>(s: Seq<Member<T>>, lo: int, hi: int, i: int)
    requires 0 <= lo <= i < hi <= s.len(), act(s[i])
    ensures cnt(s, lo, hi) >= 1
{
    lemma_cnt_split(s, lo, i, hi);
    lemma_cnt_split(s, i, i + 1, hi);
    assert(cnt(s, i, i + 1) == 1) by { assert(cnt(s, i, i) == 0); }
}

// last active position (or -1)
spec fn last_active<T>(s: Seq<Member<T>>) -> int
    decreases s.len()
{
    if s.len() == 0 { -1 } else if act(s.last()) { s.len() - 1 } else { last_active(s.drop_last()) }
}

proof fn lemma_last_active<T>(s: Seq<Member<T>>)
    ensures
        -1 <= last_active(s) < s.len(),
        last_active(s) >= 0 ==> act(s[last_active(s)]),
        forall|j: int| last_active(s) < j < s.len() ==> !act(#[trigger] s[j]),
    decreases s.len()
{
    if s.len() > 0 && !act(s.last()) {
        lemma_last_active(s.drop_last());
        assert forall|j: int| last_active(s) < j < s.len() implies !act(#[trigger] s[j]) by {
            if j < s.len() - 1 { assert(s.drop_last()[j] == s[j]); }
        }
    }
}

// The measure: an upper bound on the number of further results until the record at position `px` is returned.
// `c >= len` stands for "reshuffle next" (the code stores usize::MAX).
spec fn bound<T>(s: Seq<Member<T>>, c: int, px: int) -> int {
    let len = s.len() as int;
    let n = count_active(s) as int;
    if c >= len { n }
    else if px >= c { cnt(s, c, px + 1) as int }
    else {
        let r = cnt(s, c, len) as int;
        let tail = if r > 0 && last_active(s) == len - 1 { n } else if first_active_from(s, 0) == px { 1 } else { 1 + n };
        r + tail
    }
}

proof fn lemma_bound_le<T>(s: Seq<Member<T>>, c: int, px: int)
    requires 0 <= c, 0 <= px < s.len(), act(s[px]), s.len() <= usize::MAX
    ensures 1 <= bound(s, c, px) <= 2 * count_active(s) - 1
{
    let len = s.len() as int;
    let n = count_active(s) as int;
    lemma_cnt_total(s);
    lemma_cnt_pos(s, 0, len, px);
    if c >= len {
    } else if px >= c {
        lemma_cnt_pos(s, c, px + 1, px);
        lemma_cnt_split(s, 0, c, len);
        lemma_cnt_split(s, c, px + 1, len);
    } else {
        // x is behind the cursor: it is not among the r active records still ahead
        lemma_cnt_split(s, 0, c, len);
        lemma_cnt_pos(s, 0, c, px);
        let r = cnt(s, c, len) as int;
        assert(r <= n - 1);
        lemma_first_active(s, 0);
        let f = first_active_from(s, 0);
        if f != px {
            // another active record precedes x, and it is behind the cursor too
            assert(0 <= f < px);
            lemma_cnt_split(s, 0, px, c);
            lemma_cnt_pos(s, 0, px, f);
            lemma_cnt_pos(s, px, c, px);
            assert(cnt(s, 0, c) >= 2);
            assert(r <= n - 2);
        }
    }
}

// membership of a record survives any sequence of swaps
proof fn lemma_swaps_keep_member<T>(s: Seq<Member<T>>, sw: Seq<(int, int)>, x: Member<T>)
    requires valid_swaps(s.len() as int, sw), exists|i: int| 0 <= i < s.len() && s[i] == x
    ensures apply_swaps(s, sw).len() == s.len(), exists|i: int| 0 <= i < s.len() && apply_swaps(s, sw)[i] == x
    decreases sw.len()
{
    if sw.len() > 0 {
        lemma_swaps_keep_member(s, sw.drop_last(), x);
        let t = apply_swaps(s, sw.drop_last());
        let (a, b) = sw.last();
        assert(0 <= a < s.len() && 0 <= b < s.len()) by { assert(sw[sw.len() - 1] == sw.last()); }
        let i = choose|i: int| 0 <= i < s.len() && t[i] == x;
        let j = swap_idx(a, b, i);
        lemma_swapped_index(t, a, b, j);
        assert(swap_idx(a, b, j) == i);
        assert(swapped(t, a, b)[j] == x);
    }
}

// The decrease: a result other than the record at px lowers the bound by at least one (and that record keeps a position).
proof fn lemma_bound_step<T: Identity>(s0: Seq<Member<T>>, c0: int, s1: Seq<Member<T>>, c1: int, pick: Option<int>, x: Member<T>)
    requires
        0 <= c0, s0.len() <= usize::MAX, uniq_addr(s0), act(x),
        exists|i: int| 0 <= i < s0.len() && s0[i] == x,
        next_step(s0, c0, s1, c1, pick),
    ensures
        s1.len() == s0.len(), uniq_addr(s1), count_active(s1) == count_active(s0), 0 <= c1,
        exists|i: int| 0 <= i < s1.len() && s1[i] == x,
        pick.is_some() && 0 <= pick.unwrap() < s1.len(),
        ({
            let px0 = find_addr(s0, x.id.addr_of());
            let px1 = find_addr(s1, x.id.addr_of());
            s0[px0] == x && s1[px1] == x
                && (pick.unwrap() == px1 || bound(s1, c1, px1) <= bound(s0, c0, px0) - 1)
        }),
{
    let len = s0.len() as int;
    let a = x.id.addr_of();
    lemma_find_addr(s0, a);
    let px0 = find_addr(s0, a);
    let i0 = choose|i: int| 0 <= i < s0.len() && s0[i] == x;
    assert(px0 == i0) by {
        if px0 != i0 {
            if px0 < i0 { assert(s0[px0].id.addr_of() != s0[i0].id.addr_of()); } else { assert(s0[i0].id.addr_of() != s0[px0].id.addr_of()); }
        }
    }
    // the list after the (possible) reshuffle
    if c0 >= len {
        let sw = choose|sw: Seq<(int, int)>| valid_swaps(len, sw) && s1 == apply_swaps(s0, sw);
        lemma_swaps_preserve(s0, sw);
        lemma_swaps_keep_member(s0, sw, x);
    }
    lemma_find_addr(s1, a);
    let px1 = find_addr(s1, a);
    let i1 = choose|i: int| 0 <= i < s1.len() && s1[i] == x;
    assert(px1 == i1) by {
        if px1 != i1 {
            if px1 < i1 { assert(s1[px1].id.addr_of() != s1[i1].id.addr_of()); } else { assert(s1[i1].id.addr_of() != s1[px1].id.addr_of()); }
        }
    }
    let c = if c0 >= len { 0 } else { c0 };
    let n = count_active(s1) as int;
    lemma_cnt_total(s1);
    lemma_first_active(s1, c);
    lemma_first_active(s1, 0);
    lemma_first_cnt(s1, c);
    lemma_first_cnt(s1, 0);
    lemma_last_active(s1);
    lemma_cnt_pos(s1, 0, len, px1);
    let p = first_active_from(s1, c);
    if p >= 0 {
        // the scan from the cursor found a record
        assert(pick == Some(p));
        if p != px1 {
            if c0 >= len {
                // fresh pass: x lies strictly after the first active record
                assert(px1 > p) by { if px1 < p { assert(!act(s1[px1])); } }
                lemma_cnt_split(s1, 0, p + 1, len);
                lemma_cnt_split(s1, p + 1, px1 + 1, len);
                assert(bound(s1, c1, px1) == cnt(s1, p + 1, px1 + 1));
            } else if px1 >= c {
                assert(px1 > p) by { if px1 < p { assert(!act(s1[px1])); } }
                lemma_cnt_split(s1, c, p + 1, px1 + 1);
                assert(bound(s1, c1, px1) == cnt(s1, p + 1, px1 + 1));
            } else {
                // x is behind; one fewer active record ahead
                let r = cnt(s1, c, len) as int;
                lemma_cnt_split(s1, c, p + 1, len);
                let r1 = cnt(s1, p + 1, len) as int;
                assert(r1 == r - 1);
                lemma_cnt_pos(s1, c, len, p);
                if c1 >= len {
                    // p was the last position: the next result comes after a reshuffle
                    assert(p == len - 1);
                    assert(last_active(s1) == len - 1) by { if last_active(s1) < len - 1 { assert(!act(s1[p])); } }
                    assert(r1 == 0) by { assert(cnt(s1, len, len) == 0); }
                } else if r1 == 0 {
                    // p was the last active record, but Down records follow: the next step wraps around
                    assert(last_active(s1) == p) by {
                        let la = last_active(s1);
                        if la > p { lemma_cnt_pos(s1, p + 1, len, la); }
                        if la < p { assert(!act(s1[p])); }
                    }
                    assert(last_active(s1) != len - 1);
                } else {
                    assert(r1 > 0 && r > 0);
                }
            }
        }
    } else {
        // nothing at or after the cursor
        let q = first_active_from(s1, 0);
        assert(q >= 0) by { if q < 0 { assert(cnt(s1, 0, len) == 0); } }
        assert(q < c) by { if q >= c { lemma_first_active(s1, c); assert(!act(s1[q])); } }
        assert(pick == Some(q));
        assert(c1 >= len);
        assert(c0 < len);
        if q != px1 {
            assert(px1 < c) by { if px1 >= c { assert(!act(s1[px1])); } }
            assert(cnt(s1, c, len) == 0);
        }
    }
}

// A run: consecutive results of `next` on a stable membership.  lists[i], cursors[i] is the state before the i-th call,
// picks[i] the position (in lists[i+1]) of the record it returned.
spec fn valid_run<T>(lists: Seq<Seq<Member<T>>>, cursors: Seq<int>, picks: Seq<Option<int>>) -> bool {
    &&& lists.len() == picks.len() + 1 && cursors.len() == lists.len()
    &&& forall|i: int| 0 <= i < picks.len() ==> next_step(#[trigger] lists[i], cursors[i], lists[i + 1], cursors[i + 1], picks[i])
}

// L C14.window: in any 2n-1 consecutive rounds every active member is returned (pinged) at least once  [C14.window]
proof fn lemma_c14_window<T: Identity>(lists: Seq<Seq<Member<T>>>, cursors: Seq<int>, picks: Seq<Option<int>>, x: Member<T>)
    requires
        valid_run(lists, cursors, picks),
        0 <= cursors[0], lists[0].len() <= usize::MAX, uniq_addr(lists[0]), act(x),
        exists|i: int| 0 <= i < lists[0].len() && lists[0][i] == x,
        picks.len() >= 2 * count_active(lists[0]) - 1, // [C14.window]
    ensures
        exists|i: int| 0 <= i < picks.len() && picks[i].is_some() && 0 <= picks[i].unwrap() < lists[i + 1].len()
            && lists[i + 1][picks[i].unwrap()] == x, // [C14.window]
{
    let px = find_addr(lists[0], x.id.addr_of());
    lemma_find_addr(lists[0], x.id.addr_of());
    let i0 = choose|i: int| 0 <= i < lists[0].len() && lists[0][i] == x;
    assert(px == i0) by {
        if px != i0 {
            if px < i0 { assert(lists[0][px].id.addr_of() != lists[0][i0].id.addr_of()); } else { assert(lists[0][i0].id.addr_of() != lists[0][px].id.addr_of()); }
        }
    }
    lemma_bound_le(lists[0], cursors[0], px);
    lemma_window_rec(lists, cursors, picks, x, 0);
}

// from round k on, with budget bound(state_k): x shows up within that many rounds
proof fn lemma_window_rec<T: Identity>(lists: Seq<Seq<Member<T>>>, cursors: Seq<int>, picks: Seq<Option<int>>, x: Member<T>, k: int)
    requires
        valid_run(lists, cursors, picks), 0 <= k < lists.len(),
        0 <= cursors[k], lists[k].len() <= usize::MAX, uniq_addr(lists[k]), act(x),
        exists|i: int| 0 <= i < lists[k].len() && lists[k][i] == x,
        picks.len() - k >= bound(lists[k], cursors[k], find_addr(lists[k], x.id.addr_of())),
        bound(lists[k], cursors[k], find_addr(lists[k], x.id.addr_of())) >= 1,
    ensures
        exists|i: int| k <= i < picks.len() && picks[i].is_some() && 0 <= picks[i].unwrap() < lists[i + 1].len()
            && lists[i + 1][picks[i].unwrap()] == x,
    decreases picks.len() - k
{
    assert(k < picks.len());
    assert(next_step(lists[k], cursors[k], lists[k + 1], cursors[k + 1], picks[k]));
    lemma_bound_step(lists[k], cursors[k], lists[k + 1], cursors[k + 1], picks[k], x);
    let px1 = find_addr(lists[k + 1], x.id.addr_of());
    if picks[k].unwrap() == px1 {
        assert(lists[k + 1][picks[k].unwrap()] == x);
    } else {
        lemma_find_addr(lists[k + 1], x.id.addr_of());
        assert(0 <= px1 < lists[k + 1].len() && lists[k + 1][px1] == x);
        lemma_bound_le(lists[k + 1], cursors[k + 1], px1);
        lemma_window_rec(lists, cursors, picks, x, k + 1);
    }
}
