// ---- trusted prelude: user-supplied Codec and BroadcastHandler (src/codec.rs, src/broadcast.rs) with ghost members ----
// N5: the error payload `Box<dyn core::error::Error + Send + Sync>` is erased to an opaque type; no property depends on it.
#[verifier::external_body]
struct ErrBox { _p: () }

impl ErrBox {
    #[verifier::external_body]
    fn new<E>(e: E) -> ErrBox { unimplemented!() }
}

// A-codec: the wire format is a function of the value (stateless codec); buffers are taken by `&mut`
// (bytes' blanket `impl BufMut for &mut B` / `impl Buf for &mut B` make that the same call: rule N11).
trait Codec<T: Identity>: Sized {
    type Error;

    spec fn hdr_bytes(h: Header<T>) -> Seq<u8>;
    spec fn mem_bytes(m: Member<T>) -> Seq<u8>;

    // an encoded member occupies at least one byte
    proof fn lemma_mem_nonempty(m: Member<T>)
        ensures Self::mem_bytes(m).len() >= 1;

    fn encode_header<B: BufMut>(&mut self, header: &Header<T>, buf: &mut B) -> (r: core::result::Result<(), Self::Error>)
        ensures
            (*final(buf)).cap() == (*old(buf)).cap(),
            r.is_ok() ==> (*final(buf)).written() == (*old(buf)).written() + Self::hdr_bytes(*header)
                && (*final(buf)).rem() == (*old(buf)).rem() - Self::hdr_bytes(*header).len(),
            // on failure the buffer may be left dirty, but never shrinks and never exceeds its limit
            r.is_err() ==> (*old(buf)).written().is_prefix_of((*final(buf)).written())
                && (*final(buf)).written().len() - (*old(buf)).written().len() == (*old(buf)).rem() - (*final(buf)).rem();

    fn decode_header<B: Buf>(&mut self, buf: &mut B) -> (r: core::result::Result<Header<T>, Self::Error>)
        ensures
            (match r { Ok(h) => (*old(buf)).bytes() == Self::hdr_bytes(h) + (*final(buf)).bytes(), Err(_) => true }),
            exists|k: int| 0 <= k <= (*old(buf)).bytes().len() && (*final(buf)).bytes() == (*old(buf)).bytes().skip(k),
            // A-codec (self-delimiting): an encoded header followed by anything decodes to that header and stops right after it
            forall|h: Header<T>, rest: Seq<u8>| (*old(buf)).bytes() == #[trigger] (Self::hdr_bytes(h) + rest) ==> r is Ok && r->Ok_0 == h && (*final(buf)).bytes() == rest;

    fn encode_member<B: BufMut>(&mut self, member: &Member<T>, buf: &mut B) -> (r: core::result::Result<(), Self::Error>)
        ensures
            (*final(buf)).cap() == (*old(buf)).cap(),
            r.is_ok() ==> (*final(buf)).written() == (*old(buf)).written() + Self::mem_bytes(*member)
                && (*final(buf)).rem() == (*old(buf)).rem() - Self::mem_bytes(*member).len(),
            r.is_err() ==> (*old(buf)).written().is_prefix_of((*final(buf)).written())
                && (*final(buf)).written().len() - (*old(buf)).written().len() == (*old(buf)).rem() - (*final(buf)).rem();

    fn decode_member<B: Buf>(&mut self, buf: &mut B) -> (r: core::result::Result<Member<T>, Self::Error>)
        ensures
            (match r { Ok(m) => (*old(buf)).bytes() == Self::mem_bytes(m) + (*final(buf)).bytes(), Err(_) => true }),
            exists|k: int| 0 <= k <= (*old(buf)).bytes().len() && (*final(buf)).bytes() == (*old(buf)).bytes().skip(k),
            forall|m: Member<T>, rest: Seq<u8>| (*old(buf)).bytes() == #[trigger] (Self::mem_bytes(m) + rest) ==> r is Ok && r->Ok_0 == m && (*final(buf)).bytes() == rest;
}

// The handler's answers are arbitrary (A-handler); `calls()` is the ghost record of what it was shown.
trait BroadcastHandler<T>: Sized {
    type Key: Invalidates;
    type Error;

    spec fn calls(&self) -> Seq<(Seq<u8>, Option<T>)>;
    spec fn should_add_spec(&self, member: &T) -> bool;

    fn receive_item(&mut self, data: &[u8], sender: Option<&T>) -> (r: core::result::Result<Option<Self::Key>, Self::Error>)
        ensures
            (*final(self)).calls() == (*old(self)).calls().push((data@, match sender { Some(s) => Some(*s), None => None })),
            forall|m: &T| (*final(self)).should_add_spec(m) == (*old(self)).should_add_spec(m);

    fn should_add_broadcast_data(&self, _member: &T) -> (r: bool)
        ensures r == self.should_add_spec(_member);
}
